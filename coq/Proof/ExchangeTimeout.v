(* Proofs for C12 (Model/ExchangeTimeout.v). *)
From Coq Require Import ZArith List Bool Lia.
From TD Require Import Gen.ExchangeSteps Model.ExchangeTimeout.
Import ListNotations.
Open Scope Z_scope.

Lemma dmin_within_r a t b : t <= b -> within (dmin a (Fin t)) b.
Proof. destruct a; cbn; lia. Qed.

Lemma withinb_spec d b : withinb d b = true <-> within d b.
Proof. destruct d; cbn; [apply Z.leb_le|split; [discriminate|tauto]]. Qed.

(* generic: a table in which every operation goes through the timeout helpers, none of them
   re-arming the timeout per skipped frame, is bounded per STEP in every configuration and for
   every number / spacing of skipped frames *)
Lemma bounded_table_ok ops : all_ops_bounded ops = true ->
  forall c timeout start n gap o, In o ops -> step_bounded c timeout start n gap o.
Proof.
  unfold all_ops_bounded. rewrite forallb_forall. intros H c timeout start n gap o Hin.
  specialize (H o Hin). apply andb_true_iff in H as [Hb Hr]. apply negb_true_iff in Hr.
  unfold step_bounded, step_deadline, op_deadline. rewrite Hb, Hr. apply dmin_within_r. lia.
Qed.

(* the generated table of the current source *)
Lemma client_steps_all_bounded : all_ops_bounded client_steps = true.
Proof. vm_compute. reflexivity. Qed.

Theorem every_step_bounded :
  forall c timeout start n gap o, In o client_steps -> step_bounded c timeout start n gap o.
Proof. exact (bounded_table_ok client_steps client_steps_all_bounded). Qed.

(* conversely an operation that bypasses the helpers is unbounded exactly when the context
   that reaches Run has no deadline: PFS connect or key regeneration with a deadline-free caller *)
Lemma bare_op_unbounded c timeout start n gap dir r :
  run_ctx c = Inf -> ~ step_bounded c timeout start n gap (dir, false, r).
Proof. unfold step_bounded, step_deadline, op_deadline, op_bounded. cbn [fst snd]. intros ->. cbn. tauto. Qed.

(* and a step that re-arms its timeout per skipped frame outlives the timeout by n * gap *)
Lemma restart_op_late c timeout start n gap dir :
  run_ctx c = Inf -> 0 < n * gap -> ~ step_bounded c timeout start n gap (dir, true, true).
Proof.
  unfold step_bounded, step_deadline, op_deadline, op_bounded, op_restart. cbn [fst snd].
  intros -> H. cbn. lia.
Qed.

Lemma run_ctx_inf_iff c :
  run_ctx c = Inf <-> cfg_caller c = Inf /\ (cfg_pfs c = true \/ cfg_regen c = true).
Proof.
  unfold run_ctx, ctx_of, c_ctx_regen, c_ctx_pfs_perm, c_ctx_connect_pfs, c_ctx_connect_nonpfs.
  destruct (cfg_pfs c), (cfg_regen c), (cfg_caller c); cbn; split;
    try (intros H; discriminate H); try tauto;
    try (intros [H1 [H2|H2]]; discriminate); intros [H _]; discriminate.
Qed.

(* both exchanges of a PFS connect get the same context *)
Lemma pfs_temp_same_ctx : c_ctx_pfs_temp = c_ctx_pfs_perm.
Proof. reflexivity. Qed.
