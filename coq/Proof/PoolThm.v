(* Consequences of the invariant: the statements used by Prop/C27.v and Prop/C28.v. *)
From Coq Require Import ZArith List Bool Arith Lia.
From TD Require Import Gen.PoolDecide Model.Pool Proof.PoolTac Proof.Pool.
Import ListNotations.
Open Scope Z_scope.

(* counted connections: slots taken by callers that have not created their connection yet
   + created connections whose death is not recorded *)
Definition counted (st : state) : Z := Z.of_nat (length (s_pending st)) + live (s_conns st) (s_created st).

Theorem limit : forall max st, reachable max st ->
  s_total st = counted st /\ (1 <= max -> s_total st <= max) /\ s_panicked st = false.
Proof.
  intros max st R. pose proof (inv_reachable _ _ R) as I. destruct R as [l R].
  pose proof (run_max _ _ _ R) as M. simpl in M. destruct I. unfold counted. rewrite <- M. auto.
Qed.

Theorem exclusive : forall max st, reachable max st ->
  forall x y c, held_conn (s_pc st x) = Some c -> held_conn (s_pc st y) = Some c -> x = y.
Proof. intros max st R. destruct (inv_reachable _ _ R). assumption. Qed.

Theorem held_not_idle : forall max st, reachable max st ->
  forall x c, held_conn (s_pc st x) = Some c -> ~ In c (s_free st) /\ forall k, s_chan st k <> Some c.
Proof.
  intros max st R x c H. destruct (inv_reachable _ _ R). split.
  - intro F. eapply i_free_held; eassumption.
  - intros k E. eapply i_chan_held; eassumption.
Qed.

(* a caller starts to hold a connection for Invoke only through a Dead() read that found it alive *)
Theorem no_dead_handout : forall st e st' x c,
  step st e = Some st' -> s_pc st' x = PHolding c -> s_pc st x <> PHolding c ->
  dead_in (s_conns st) c = false /\ s_pc st x = PCheck c /\ e = ECheck x true.
Proof.
  intros st e st' x c H P N.
  destruct e; inv_step H; try (destruct o; inv_step H); cbn in P; unfold updN in P;
    try (destruct (Nat.eqb_spec x x0); subst; try congruence); try congruence.
  all: try (destruct alive; try congruence).
  all: try (destruct md; congruence).
  all: try (destruct w; congruence).
  injection P as ->. apply eqb_prop in G1. unfold is_dead in G1.
  split; [|split; [assumption|reflexivity]]. unfold dead_in. destruct (s_conns st c) as [r|]; [|reflexivity].
  destruct (c_dead r); simpl in G1; congruence.
Qed.

(* along any run: whenever a caller holds c for Invoke, the death of c had not been recorded when it got it *)
Definition place (st : state) (c : Z) : Prop :=
  In c (s_free st) \/ (exists k, s_chan st k = Some c) \/ (exists x, held_conn (s_pc st x) = Some c).

Theorem accounting : forall max st, reachable max st -> s_ctxdone st = false ->
  forall c r, s_conns st c = Some r -> c_deleted r = false ->
    place st c
    /\ NoDup (s_free st)
    /\ (In c (s_free st) -> (forall k, s_chan st k <> Some c) /\ forall x, held_conn (s_pc st x) <> Some c)
    /\ (forall k, s_chan st k = Some c ->
          (forall x, held_conn (s_pc st x) <> Some c) /\ (forall k', s_chan st k' = Some c -> k' = k)
          /\ exists x, wait_key (s_pc st x) = Some k /\ forall y, wait_key (s_pc st y) = Some k -> y = x)
    /\ (forall x y, held_conn (s_pc st x) = Some c -> held_conn (s_pc st y) = Some c -> x = y).
Proof.
  intros max st R D c r C N. destruct (inv_reachable _ _ R).
  split; [|split; [assumption|split; [|split]]].
  - apply i_account; [assumption | congruence | unfold deleted_in; rewrite C; assumption].
  - intro F. split; [intros k E; eapply i_free_chan; eassumption | intros x E; eapply i_free_held; eassumption].
  - intros k E. split; [intros x H; eapply i_chan_held; eassumption|]. split.
    + intros k' E'. eapply i_chan_uniq; eassumption.
    + destruct (i_chan_waiter _ _ E) as [x W]. exists x. split; [assumption|]. intros y Wy. eapply i_wait_uniq; eassumption.
  - intros x y. apply i_held_uniq.
Qed.

(* every connection ever named by the pool's state was created *)
Theorem only_created : forall max st, reachable max st -> forall c, place st c -> s_conns st c <> None.
Proof.
  intros max st R c P. destruct (inv_reachable _ _ R). destruct P as [F|[[k F]|[x F]]].
  - apply i_free_created; assumption.
  - eapply i_chan_created; eassumption.
  - eapply i_held_created; eassumption.
Qed.

(* the "consequently" clause: a waiting caller is blocked only if no connection is idle and no slot is free *)
Theorem consequently : forall max st, reachable max st ->
  forall x k g, s_pc st x = PWaiting k g ->
    (exists c st', step st (EWaitGot x c) = Some st') \/ (exists st', step st (EWaitStuck x) = Some st')
    \/ (s_free st = [] /\ can_create_go (s_max st) (s_total st) = false).
Proof.
  intros max st R x k g P. destruct (inv_reachable _ _ R).
  destruct (i_waiting _ _ _ P) as [Q|[c C]].
  - destruct (i_pulse _ _ _ P Q) as [L|F].
    + right; left. unfold step. rewrite i_nopanic, P. apply Nat.ltb_lt in L. rewrite L. eauto.
    + right; right. split; [|assumption]. apply i_reqs_free. intro E. rewrite E in Q. inversion Q.
  - left. exists c. unfold step. rewrite i_nopanic, P, C, Z.eqb_refl. eauto.
Qed.

(* a connection whose deletion was won by its Run goroutine gets its death recorded: the region is enabled *)
Theorem dying_progress : forall max st, reachable max st ->
  forall c r, s_conns st c = Some r -> c_deleted r = true -> c_dead r = false ->
    exists st', step st (ERunDead c) = Some st'.
Proof.
  intros max st R c r C D N. destruct (inv_reachable _ _ R).
  unfold step. rewrite i_nopanic, C, D, N. simpl. eauto.
Qed.

(* one death frees one slot: once the death of c is recorded, no dead() region for c is enabled any more
   (neither the Run goroutine's nor a holder's mark-dead), so total is decremented once per connection *)
Theorem death_recorded_once : forall max st, reachable max st ->
  forall c, dead_in (s_conns st) c = true ->
    step st (ERunDead c) = None /\ forall x, step st (EDeadBy x c) = None.
Proof.
  intros max st R c D. destruct (inv_reachable _ _ R). pose proof (i_flags _ D) as F.
  unfold dead_in in D. unfold deleted_in in F. unfold step. rewrite i_nopanic.
  destruct (s_conns st c) as [r|] eqn:C; [|discriminate]. rewrite D, F. split.
  - reflexivity.
  - intros x. destruct (s_pc st x); try reflexivity. rewrite andb_false_r. reflexivity.
Qed.
