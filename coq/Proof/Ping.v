(* Proofs about Model/Ping.v (C43): invariants over all event sequences. *)
From Coq Require Import ZArith List Bool Lia.
From TD Require Import Model.Ping.
Import ListNotations.
Open Scope Z_scope.

(* ---------- list helpers ---------- *)
Lemma upd_same l : forall k f c, nth_error l k = Some c -> nth_error (upd_call l k f) k = Some (f c).
Proof.
  induction l as [|x t IH]; intros [|k] f c H; simpl in *; try discriminate.
  - inversion H; reflexivity.
  - apply IH; exact H.
Qed.
Lemma upd_other l : forall k j f, j <> k -> nth_error (upd_call l k f) j = nth_error l j.
Proof.
  induction l as [|x t IH]; intros [|k] [|j] f H; simpl; try reflexivity; try congruence.
  apply IH. congruence.
Qed.
Lemma upd_length l : forall k f, length (upd_call l k f) = length l.
Proof. induction l as [|x t IH]; intros [|k] f; simpl; auto. Qed.
Lemma upd_Forall (P : call -> Prop) l : forall k f,
  Forall P l -> (forall c, nth_error l k = Some c -> P c -> P (f c)) -> Forall P (upd_call l k f).
Proof.
  induction l as [|x t IH]; intros [|k] f HF Hf; simpl; try constructor; inversion HF; subst; auto.
Qed.

Lemma stage_eqb_eq a b : stage_eqb a b = true <-> a = b.
Proof. destruct a, b; simpl; split; intros; congruence. Qed.

(* ---------- invariant 1: nil needs an own pong ---------- *)
Definition call_ok (c : call) : Prop :=
  (cclosed c = true -> (1 <= cown c)%nat) /\ (cstage c = RetNil -> cclosed c = true).
Definition inv1 (s : pstate) : Prop := Forall call_ok (calls s).

Lemma inv1_step s e s' : inv1 s -> pstep s e = Some s' -> inv1 s'.
Proof.
  unfold inv1. intros I H. destruct e as [id bl|k ok|id|k|k ok]; simpl in H.
  - destruct (bl && _); [discriminate|]. inversion H; subst; simpl.
    apply Forall_app. split; [exact I|]. constructor; [|constructor]. split; simpl; intros; discriminate.
  - destruct (nth_error (calls s) k) as [c|] eqn:E; [|discriminate].
    destruct (stage_eqb (cstage c) Reg) eqn:S; [|discriminate]. destruct ok.
    + inversion H; subst; simpl. apply upd_Forall; [exact I|]. intros c0 _ (A & B). split; simpl; [exact A|discriminate].
    + destruct (loop_after s k false). inversion H; subst; simpl.
      apply upd_Forall; [exact I|]. intros c0 _ (A & B). split; simpl; [exact A|discriminate].
  - destruct (pget id (pmap s)) as [k|]; inversion H; subst; simpl; [|exact I].
    apply upd_Forall; [exact I|]. intros c0 _ (A & B). split; simpl; [intros; lia|intros; reflexivity].
  - destruct (nth_error (calls s) k) as [c|]; [|discriminate]. inversion H; subst; simpl.
    apply upd_Forall; [exact I|]. intros c0 _ (A & B). split; simpl; assumption.
  - destruct (nth_error (calls s) k) as [c|] eqn:E; [|discriminate].
    destruct (stage_eqb (cstage c) Sent && (if ok then cclosed c else cctx c)) eqn:G; [|discriminate].
    destruct (loop_after s k ok). inversion H; subst; simpl.
    apply upd_Forall; [exact I|]. intros c0 E0 (A & B). rewrite E in E0. inversion E0; subst c0.
    apply andb_true_iff in G. destruct G as (_ & G).
    destruct ok; split; simpl; try exact A; try discriminate. intros _. exact G.
Qed.

Lemma inv1_run tr : forall s s', inv1 s -> prun s tr = Some s' -> inv1 s'.
Proof.
  induction tr as [|e t IH]; intros s s' I H; simpl in H.
  - inversion H; subst; exact I.
  - destruct (pstep s e) as [s1|] eqn:E; [|discriminate]. eapply IH; [|exact H]. eapply inv1_step; eassumption.
Qed.

(* C43_nil_needs_own_pong: over all event sequences from the initial state, a call that
   returned nil had its own channel closed by at least one pong carrying its own id. *)
Theorem nil_needs_own_pong tr s k c :
  prun pinit tr = Some s -> nth_error (calls s) k = Some c -> cstage c = RetNil ->
  cclosed c = true /\ (1 <= cown c)%nat.
Proof.
  intros R E N. assert (I : inv1 s) by (eapply inv1_run; [|exact R]; constructor).
  unfold inv1 in I. rewrite Forall_forall in I. apply nth_error_In in E. destruct (I c E) as (A & B).
  split; [auto|auto].
Qed.

(* ---------- invariant 2: the map points at calls with that id ---------- *)
Definition inv2 (s : pstate) : Prop :=
  forall id k, In (id, k) (pmap s) -> exists c, nth_error (calls s) k = Some c /\ cid c = id.

Lemma pdel_in id m p : In p (pdel id m) -> In p m /\ fst p <> id.
Proof. unfold pdel. intros H. apply filter_In in H. destruct H as (H & N). split; [exact H|]. apply negb_true_iff, Z.eqb_neq in N. exact N. Qed.

Lemma pget_in id m k : pget id m = Some k -> In (id, k) m.
Proof.
  unfold pget. destruct (find (fun p => fst p =? id) m) as [p|] eqn:F; [|discriminate].
  intros H; inversion H; subst. apply find_some in F. destruct F as (F & E). apply Z.eqb_eq in E.
  destruct p; simpl in *; subst; exact F.
Qed.

Lemma pget_pdel id m : pget id (pdel id m) = None.
Proof.
  unfold pget. destruct (find (fun p => fst p =? id) (pdel id m)) as [p|] eqn:F; [|reflexivity].
  apply find_some in F. destruct F as (F & E). apply pdel_in in F. apply Z.eqb_eq in E. tauto.
Qed.

Lemma cid_set_stage st c : cid (set_stage st c) = cid c. Proof. reflexivity. Qed.
Lemma cid_set_closed c : cid (set_closed c) = cid c. Proof. reflexivity. Qed.
Lemma cid_set_ctx c : cid (set_ctx c) = cid c. Proof. reflexivity. Qed.

Lemma inv2_upd s k f m' :
  inv2 s -> (forall c, cid (f c) = cid c) -> (forall p, In p m' -> In p (pmap s)) ->
  forall id j, In (id, j) m' -> exists c, nth_error (upd_call (calls s) k f) j = Some c /\ cid c = id.
Proof.
  intros I Hf Hm id j Hin. destruct (I id j (Hm _ Hin)) as (c & E & C).
  destruct (Nat.eq_dec j k) as [->|N].
  - exists (f c). split; [apply upd_same; exact E|rewrite Hf; exact C].
  - exists c. split; [rewrite upd_other by exact N; exact E|exact C].
Qed.

Ltac upd_same_map I Hin := eapply (inv2_upd _ _ _ _ I); [intros; reflexivity | | exact Hin]; intros p Hp; exact Hp.
Ltac upd_del_map I Hin := eapply (inv2_upd _ _ _ _ I); [intros; reflexivity | | exact Hin]; intros p Hp; apply pdel_in in Hp; tauto.

Lemma inv2_step s e s' : inv2 s -> pstep s e = Some s' -> inv2 s'.
Proof.
  intros I H. destruct e as [id bl|k ok|id|k|k ok]; simpl in H.
  - destruct (bl && _); [discriminate|]. inversion H; subst; clear H. intros id' j Hin. simpl in *.
    destruct Hin as [Hin|Hin].
    + inversion Hin; subst. eexists. split; [rewrite nth_error_app2 by lia; rewrite Nat.sub_diag; reflexivity|reflexivity].
    + apply pdel_in in Hin. destruct (I id' j (proj1 Hin)) as (c & E & C). exists c. split; [|exact C].
      rewrite nth_error_app1; [exact E|]. apply nth_error_Some. congruence.
  - destruct (nth_error (calls s) k) as [c|] eqn:E; [|discriminate].
    destruct (stage_eqb (cstage c) Reg); [|discriminate]. destruct ok.
    + inversion H; subst; clear H. intros id j Hin. simpl in *. upd_same_map I Hin.
    + destruct (loop_after s k false). inversion H; subst; clear H. intros id j Hin. simpl in *.
      upd_del_map I Hin.
  - destruct (pget id (pmap s)) as [k|]; inversion H; subst; clear H; [|exact I].
    intros id' j Hin. simpl in *. upd_del_map I Hin.
  - destruct (nth_error (calls s) k) as [c|]; [|discriminate]. inversion H; subst; clear H.
    intros id j Hin. simpl in *. upd_same_map I Hin.
  - destruct (nth_error (calls s) k) as [c|] eqn:E; [|discriminate].
    destruct (stage_eqb (cstage c) Sent && _); [|discriminate].
    destruct (loop_after s k ok). inversion H; subst; clear H. intros id j Hin. simpl in *.
    upd_del_map I Hin.
Qed.

Lemma inv2_run tr : forall s s', inv2 s -> prun s tr = Some s' -> inv2 s'.
Proof.
  induction tr as [|e t IH]; intros s s' I H; simpl in H.
  - inversion H; subst; exact I.
  - destruct (pstep s e) as [s1|] eqn:E; [|discriminate]. eapply IH; [|exact H]. eapply inv2_step; eassumption.
Qed.

Lemma inv2_init : inv2 pinit. Proof. intros id k []. Qed.

(* foreign pongs: a pong with another id changes nothing about call k *)
Theorem foreign_pong_frame tr s id s' k c :
  prun pinit tr = Some s -> pstep s (EPong id) = Some s' ->
  nth_error (calls s) k = Some c -> cid c <> id -> nth_error (calls s') k = Some c.
Proof.
  intros R H E N. assert (I : inv2 s) by (eapply inv2_run; [apply inv2_init|exact R]).
  simpl in H. destruct (pget id (pmap s)) as [j|] eqn:G; inversion H; subst; [|exact E]. simpl.
  apply pget_in in G. destruct (I id j G) as (cj & Ej & Cj).
  rewrite upd_other; [exact E|]. intros ->. rewrite E in Ej. inversion Ej; subst. congruence.
Qed.

(* only a pong with its own id can close a call's channel / count as its pong *)
Theorem closed_only_by_own_pong tr s e s' k c c' :
  prun pinit tr = Some s -> pstep s e = Some s' ->
  nth_error (calls s) k = Some c -> nth_error (calls s') k = Some c' ->
  (cclosed c' <> cclosed c \/ cown c' <> cown c) -> e = EPong (cid c).
Proof.
  intros R H E E' D. assert (I : inv2 s) by (eapply inv2_run; [apply inv2_init|exact R]).
  destruct e as [id bl|j ok|id|j|j ok]; simpl in H.
  - exfalso. destruct (bl && _); [discriminate|]. inversion H; subst; simpl in *.
    rewrite nth_error_app1 in E' by (apply nth_error_Some; congruence). rewrite E in E'. inversion E'; subst. tauto.
  - exfalso. destruct (nth_error (calls s) j) as [cj|] eqn:Ej; [|discriminate].
    destruct (stage_eqb (cstage cj) Reg); [|discriminate].
    assert (X : nth_error (calls s') k = Some c \/ (j = k /\ exists st, c' = set_stage st c)).
    { destruct ok; [|destruct (loop_after s j false)]; inversion H; subst; simpl in *;
        (destruct (Nat.eq_dec k j) as [->|Nk];
         [right; split; [reflexivity|]; rewrite Ej in E; inversion E; subst; erewrite upd_same in E' by exact Ej; inversion E'; eauto
         |left; rewrite upd_other by exact Nk; exact E]). }
    destruct X as [X|(_ & st & ->)]; [rewrite X in E'; inversion E'; subst; tauto|simpl in D; tauto].
  - destruct (pget id (pmap s)) as [j|] eqn:G; inversion H; subst; [|exfalso; rewrite E in E'; inversion E'; subst; tauto].
    simpl in E'. apply pget_in in G. destruct (I id j G) as (cj & Ej & Cj).
    destruct (Nat.eq_dec k j) as [->|Nk].
    + rewrite E in Ej. inversion Ej; subst. reflexivity.
    + exfalso. rewrite upd_other in E' by exact Nk. rewrite E in E'. inversion E'; subst. tauto.
  - exfalso. destruct (nth_error (calls s) j) as [cj|] eqn:Ej; [|discriminate]. inversion H; subst; simpl in *.
    destruct (Nat.eq_dec k j) as [->|Nk].
    + erewrite upd_same in E' by exact E. inversion E'; subst. simpl in D. tauto.
    + rewrite upd_other in E' by exact Nk. rewrite E in E'. inversion E'; subst. tauto.
  - exfalso. destruct (nth_error (calls s) j) as [cj|] eqn:Ej; [|discriminate].
    destruct (stage_eqb (cstage cj) Sent && _); [|discriminate].
    destruct (loop_after s j ok). inversion H; subst; simpl in *.
    destruct (Nat.eq_dec k j) as [->|Nk].
    + erewrite upd_same in E' by exact E. inversion E'; subst. simpl in D. tauto.
    + rewrite upd_other in E' by exact Nk. rewrite E in E'. inversion E'; subst. tauto.
Qed.

(* duplicate pongs: once a pong with some id was processed, a second one is a no-op *)
Theorem duplicate_pong_noop s id s' : pstep s (EPong id) = Some s' -> pstep s' (EPong id) = Some s'.
Proof.
  simpl. destruct (pget id (pmap s)) as [k|] eqn:G; intros H; inversion H; subst; simpl.
  - rewrite pget_pdel. reflexivity.
  - rewrite G. reflexivity.
Qed.

(* ---------- returning ---------- *)
(* without a closed channel the select cannot commit to nil; with a finished context it can
   (only) return the error, and if the call belongs to the keep-alive loop the loop dies. *)
Theorem missed_pong_kills_loop s k c :
  nth_error (calls s) k = Some c -> cstage c = Sent -> cclosed c = false ->
  pstep s (ERet k true) = None /\
  (cctx c = true -> exists s', pstep s (ERet k false) = Some s' /\
                    (loop_cur s = Some k -> loop_dead s' = true /\ loop_cur s' = None)) /\
  (cctx c = false -> pstep s (ERet k false) = None).
Proof.
  intros E S C. simpl. rewrite E, S, C. simpl. split; [reflexivity|]. split.
  - intros X. rewrite X. simpl. unfold loop_after. destruct (loop_cur s) as [j|] eqn:L.
    + destruct (Nat.eqb j k) eqn:Q; eexists; (split; [reflexivity|]); intros Y; inversion Y; subst.
      * simpl. auto.
      * rewrite Nat.eqb_refl in Q. discriminate.
    + eexists. split; [reflexivity|]. intros; discriminate.
  - intros X. rewrite X. reflexivity.
Qed.

(* invariant 3: the loop is dead only if one of its pings returned an error; while it is inside
   a ping that call has not returned *)
Definition inv3 (s : pstate) : Prop :=
  (loop_dead s = true -> exists k c, nth_error (calls s) k = Some c /\ cloop c = true /\ cstage c = RetErr) /\
  (forall k, loop_cur s = Some k -> exists c, nth_error (calls s) k = Some c /\ cloop c = true /\
                                     (cstage c = Reg \/ cstage c = Sent)).

Lemma keep_call (s : pstate) k f j c :
  nth_error (calls s) j = Some c -> (forall x, cloop (f x) = cloop x) ->
  (j <> k -> nth_error (upd_call (calls s) k f) j = Some c) /\
  (j = k -> nth_error (upd_call (calls s) k f) j = Some (f c)).
Proof.
  intros E Hf. split; intros H.
  - rewrite upd_other by exact H. exact E.
  - subst. apply upd_same. exact E.
Qed.

Lemma inv3_step s e s' : inv3 s -> pstep s e = Some s' -> inv3 s'.
Proof.
  unfold inv3. intros (D & L) H. destruct e as [id bl|k ok|id|k|k ok]; simpl in H.
  - destruct (bl && _) eqn:G; [discriminate|]. inversion H; subst; clear H. simpl. split.
    + intros X. destruct (D X) as (k & c & E & A & B). exists k, c. split; [|auto].
      rewrite nth_error_app1; [exact E|apply nth_error_Some; congruence].
    + intros k X. destruct bl.
      * inversion X; subst. eexists. split; [rewrite nth_error_app2 by lia; rewrite Nat.sub_diag; reflexivity|]. simpl. auto.
      * destruct (L k X) as (c & E & A & B). exists c. split; [|auto].
        rewrite nth_error_app1; [exact E|apply nth_error_Some; congruence].
  - destruct (nth_error (calls s) k) as [c|] eqn:E; [|discriminate].
    destruct (stage_eqb (cstage c) Reg) eqn:S; [|discriminate]. apply stage_eqb_eq in S. destruct ok.
    + inversion H; subst; clear H. simpl. split.
      * intros X. destruct (D X) as (j & cj & Ej & A & B). destruct (Nat.eq_dec j k) as [->|N].
        -- rewrite E in Ej. inversion Ej; subst. congruence.
        -- exists j, cj. split; [rewrite upd_other by exact N; exact Ej|auto].
      * intros j X. destruct (L j X) as (cj & Ej & A & B). destruct (Nat.eq_dec j k) as [->|N].
        -- rewrite E in Ej. inversion Ej; subst. exists (set_stage Sent cj). split; [apply upd_same; exact E|]. simpl. auto.
        -- exists cj. split; [rewrite upd_other by exact N; exact Ej|auto].
    + unfold loop_after in H. destruct (loop_cur s) as [j|] eqn:LC.
      * destruct (Nat.eqb j k) eqn:Q; inversion H; subst; clear H; simpl.
        -- apply Nat.eqb_eq in Q. subst j. split; [|intros; discriminate].
           intros _. destruct (L k eq_refl) as (ck & Ek & A & B). rewrite E in Ek. inversion Ek; subst.
           exists k, (set_stage RetErr ck). split; [apply upd_same; exact E|]. simpl. auto.
        -- apply Nat.eqb_neq in Q. split.
           ++ intros X. destruct (D X) as (i & ci & Ei & A & B). destruct (Nat.eq_dec i k) as [->|N].
              ** rewrite E in Ei. inversion Ei; subst. congruence.
              ** exists i, ci. split; [rewrite upd_other by exact N; exact Ei|auto].
           ++ intros i X. inversion X; subst i. destruct (L j eq_refl) as (cj & Ej & A & B).
              exists cj. split; [rewrite upd_other by exact Q; exact Ej|auto].
      * inversion H; subst; clear H; simpl. split; [|intros; discriminate].
        intros X. destruct (D X) as (i & ci & Ei & A & B). destruct (Nat.eq_dec i k) as [->|N].
        -- rewrite E in Ei. inversion Ei; subst. congruence.
        -- exists i, ci. split; [rewrite upd_other by exact N; exact Ei|auto].
  - destruct (pget id (pmap s)) as [k|]; inversion H; subst; clear H; [|split; assumption]. simpl. split.
    + intros X. destruct (D X) as (j & cj & Ej & A & B). destruct (Nat.eq_dec j k) as [->|N].
      * exists k, (set_closed cj). split; [apply upd_same; exact Ej|auto].
      * exists j, cj. split; [rewrite upd_other by exact N; exact Ej|auto].
    + intros j X. destruct (L j X) as (cj & Ej & A & B). destruct (Nat.eq_dec j k) as [->|N].
      * exists (set_closed cj). split; [apply upd_same; exact Ej|auto].
      * exists cj. split; [rewrite upd_other by exact N; exact Ej|auto].
  - destruct (nth_error (calls s) k) as [c|] eqn:E; [|discriminate]. inversion H; subst; clear H. simpl. split.
    + intros X. destruct (D X) as (j & cj & Ej & A & B). destruct (Nat.eq_dec j k) as [->|N].
      * exists k, (set_ctx cj). split; [apply upd_same; exact Ej|auto].
      * exists j, cj. split; [rewrite upd_other by exact N; exact Ej|auto].
    + intros j X. destruct (L j X) as (cj & Ej & A & B). destruct (Nat.eq_dec j k) as [->|N].
      * exists (set_ctx cj). split; [apply upd_same; exact Ej|auto].
      * exists cj. split; [rewrite upd_other by exact N; exact Ej|auto].
  - destruct (nth_error (calls s) k) as [c|] eqn:E; [|discriminate].
    destruct (stage_eqb (cstage c) Sent && _) eqn:G; [|discriminate].
    apply andb_true_iff in G. destruct G as (S & _). apply stage_eqb_eq in S.
    unfold loop_after in H. destruct (loop_cur s) as [j|] eqn:LC.
    + destruct (Nat.eqb j k) eqn:Q; inversion H; subst; clear H; simpl.
      * apply Nat.eqb_eq in Q. subst j. split; [|intros; discriminate].
        destruct (L k eq_refl) as (ck & Ek & A & B). rewrite E in Ek. inversion Ek; subst.
        destruct ok.
        -- intros X. destruct (D X) as (i & ci & Ei & A' & B'). destruct (Nat.eq_dec i k) as [->|N].
           ++ rewrite E in Ei. inversion Ei; subst. congruence.
           ++ exists i, ci. split; [rewrite upd_other by exact N; exact Ei|auto].
        -- intros _. exists k, (set_stage RetErr ck). split; [apply upd_same; exact E|]. simpl. auto.
      * apply Nat.eqb_neq in Q. split.
        -- intros X. destruct (D X) as (i & ci & Ei & A & B). destruct (Nat.eq_dec i k) as [->|N].
           ++ rewrite E in Ei. inversion Ei; subst. congruence.
           ++ exists i, ci. split; [rewrite upd_other by exact N; exact Ei|auto].
        -- intros i X. inversion X; subst i. destruct (L j eq_refl) as (cj & Ej & A & B).
           exists cj. split; [rewrite upd_other by exact Q; exact Ej|auto].
    + inversion H; subst; clear H; simpl. split; [|intros; discriminate].
      intros X. destruct (D X) as (i & ci & Ei & A & B). destruct (Nat.eq_dec i k) as [->|N].
      * rewrite E in Ei. inversion Ei; subst. congruence.
      * exists i, ci. split; [rewrite upd_other by exact N; exact Ei|auto].
Qed.

Lemma inv3_run tr : forall s s', inv3 s -> prun s tr = Some s' -> inv3 s'.
Proof.
  induction tr as [|e t IH]; intros s s' I H; simpl in H.
  - inversion H; subst; exact I.
  - destruct (pstep s e) as [s1|] eqn:E; [|discriminate]. eapply IH; [|exact H]. eapply inv3_step; eassumption.
Qed.

Theorem loop_dead_iff_ping_failed tr s :
  prun pinit tr = Some s ->
  (loop_dead s = true -> exists k c, nth_error (calls s) k = Some c /\ cloop c = true /\ cstage c = RetErr) /\
  (forall k, loop_cur s = Some k -> exists c, nth_error (calls s) k = Some c /\ cloop c = true /\
                                     (cstage c = Reg \/ cstage c = Sent)).
Proof.
  intros R. apply (inv3_run tr pinit s); [|exact R]. split; simpl; intros; discriminate.
Qed.

(* ---------- invariant 4: a channel is closed at most once ---------- *)
Definition inv4 (s : pstate) : Prop :=
  Forall (fun c => (cown c <= 1)%nat /\ (cclosed c = false -> cown c = O)) (calls s) /\
  (forall id k, In (id, k) (pmap s) -> exists c, nth_error (calls s) k = Some c /\ cid c = id /\ cclosed c = false).

Lemma inv4_calls_upd (s : pstate) k f :
  Forall (fun c => (cown c <= 1)%nat /\ (cclosed c = false -> cown c = O)) (calls s) ->
  (forall c, cown (f c) = cown c /\ cclosed (f c) = cclosed c) ->
  Forall (fun c => (cown c <= 1)%nat /\ (cclosed c = false -> cown c = O)) (upd_call (calls s) k f).
Proof.
  intros F Hf. apply upd_Forall; [exact F|]. intros c _ (A & B). destruct (Hf c) as (E1 & E2). rewrite E1, E2. auto.
Qed.

Lemma inv4_map_upd (s : pstate) k f m' :
  (forall id j, In (id, j) (pmap s) -> exists c, nth_error (calls s) j = Some c /\ cid c = id /\ cclosed c = false) ->
  (forall c, cid (f c) = cid c /\ cclosed (f c) = cclosed c) ->
  (forall p, In p m' -> In p (pmap s)) ->
  forall id j, In (id, j) m' -> exists c, nth_error (upd_call (calls s) k f) j = Some c /\ cid c = id /\ cclosed c = false.
Proof.
  intros I Hf Hm id j Hin. destruct (I id j (Hm _ Hin)) as (c & E & C & D).
  destruct (Nat.eq_dec j k) as [->|N].
  - exists (f c). destruct (Hf c) as (E1 & E2). split; [apply upd_same; exact E|]. rewrite E1, E2. auto.
  - exists c. split; [rewrite upd_other by exact N; exact E|auto].
Qed.

Lemma inv4_step s e s' : inv4 s -> pstep s e = Some s' -> inv4 s'.
Proof.
  unfold inv4. intros (F & M) H. destruct e as [id bl|k ok|id|k|k ok]; simpl in H.
  - destruct (bl && _); [discriminate|]. inversion H; subst; clear H. simpl. split.
    + apply Forall_app. split; [exact F|]. constructor; [|constructor]. simpl. auto.
    + intros id' j [Hin|Hin].
      * inversion Hin; subst. eexists. split; [rewrite nth_error_app2 by lia; rewrite Nat.sub_diag; reflexivity|]. simpl. auto.
      * apply pdel_in in Hin. destruct (M id' j (proj1 Hin)) as (c & E & C & D). exists c. split; [|auto].
        rewrite nth_error_app1; [exact E|apply nth_error_Some; congruence].
  - destruct (nth_error (calls s) k) as [c|] eqn:E; [|discriminate].
    destruct (stage_eqb (cstage c) Reg); [|discriminate]. destruct ok.
    + inversion H; subst; clear H. simpl. split.
      * apply inv4_calls_upd; [exact F|intros; split; reflexivity].
      * intros id j Hin. eapply (inv4_map_upd s k _ _ M); [intros; split; reflexivity| |exact Hin]. intros p Hp; exact Hp.
    + destruct (loop_after s k false). inversion H; subst; clear H. simpl. split.
      * apply inv4_calls_upd; [exact F|intros; split; reflexivity].
      * intros id j Hin. eapply (inv4_map_upd s k _ _ M); [intros; split; reflexivity| |exact Hin].
        intros p Hp. apply pdel_in in Hp. tauto.
  - destruct (pget id (pmap s)) as [k|] eqn:G; inversion H; subst; clear H; [|split; assumption]. simpl.
    apply pget_in in G. destruct (M id k G) as (ck & Ek & Ck & Dk). split.
    + apply upd_Forall; [exact F|]. intros c E0 (A & B). rewrite Ek in E0. inversion E0; subst c.
      simpl. rewrite (B Dk). split; [lia|discriminate].
    + intros id' j Hin. apply pdel_in in Hin. destruct Hin as (Hin & Nid). simpl in Nid.
      destruct (M id' j Hin) as (c & E & C & D). exists c. split; [|auto].
      rewrite upd_other; [exact E|]. intros ->. rewrite Ek in E. inversion E; subst. congruence.
  - destruct (nth_error (calls s) k) as [c|]; [|discriminate]. inversion H; subst; clear H. simpl. split.
    + apply inv4_calls_upd; [exact F|intros; split; reflexivity].
    + intros id j Hin. eapply (inv4_map_upd s k _ _ M); [intros; split; reflexivity| |exact Hin]. intros p Hp; exact Hp.
  - destruct (nth_error (calls s) k) as [c|] eqn:E; [|discriminate].
    destruct (stage_eqb (cstage c) Sent && _); [|discriminate].
    destruct (loop_after s k ok). inversion H; subst; clear H. simpl. split.
    + apply inv4_calls_upd; [exact F|intros; split; reflexivity].
    + intros id j Hin. eapply (inv4_map_upd s k _ _ M); [intros; split; reflexivity| |exact Hin].
      intros p Hp. apply pdel_in in Hp. tauto.
Qed.

Lemma inv4_run tr : forall s s', inv4 s -> prun s tr = Some s' -> inv4 s'.
Proof.
  induction tr as [|e t IH]; intros s s' I H; simpl in H.
  - inversion H; subst; exact I.
  - destruct (pstep s e) as [s1|] eqn:E; [|discriminate]. eapply IH; [|exact H]. eapply inv4_step; eassumption.
Qed.

(* handlePong closes a call's channel at most once, over all event sequences (a second close
   would panic the read path) *)
Theorem no_double_close tr s k c :
  prun pinit tr = Some s -> nth_error (calls s) k = Some c -> (cown c <= 1)%nat.
Proof.
  intros R E. assert (I : inv4 s).
  { eapply inv4_run; [|exact R]. split; [constructor|intros id j []]. }
  destruct I as (F & _). rewrite Forall_forall in F. apply nth_error_In in E. apply (F c E).
Qed.

(* equal random ping ids: call 0's return removes the entry that call 1 registered under the
   same id, so call 1's own pong no longer reaches it (it can only end with its context) *)
Lemma equal_ids_strand :
  exists s c, prun pinit [EStart 7 false; EStart 7 false; EWrite 0 true; EWrite 1 true; ECtx 0; ERet 0 false; EPong 7] = Some s /\
              pmap s = [] /\ nth_error (calls s) 1 = Some c /\ cstage c = Sent /\ cclosed c = false.
Proof. eexists. eexists. split; [vm_compute; reflexivity|]. repeat split. Qed.
