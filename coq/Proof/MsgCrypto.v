(* Proofs about Model/MsgCrypto.v: IGE inversion, countPadding, header codec, the
   encrypt/decrypt round trip (C04) and the exact acceptance condition (C05). *)
From Coq Require Import ZArith List Bool Lia.
From TD Require Import Lib.Bytes Lib.GoSem Gen.CipherConsts Model.MsgCrypto.
Import ListNotations.
Open Scope Z_scope.

(* ---------- small list facts ---------- *)
Lemma bytes_eqb_eq a b : bytes_eqb a b = true <-> a = b.
Proof.
  revert b; induction a as [|x a IH]; intros [|y b]; cbn; split; intros H; try reflexivity; try discriminate.
  - apply andb_true_iff in H as [H1 H2]. apply Z.eqb_eq in H1. apply IH in H2. congruence.
  - inversion H; subst. rewrite Z.eqb_refl. cbn. apply IH. reflexivity.
Qed.
Lemma bytes_eqb_refl a : bytes_eqb a a = true.
Proof. apply bytes_eqb_eq; reflexivity. Qed.
Lemma bytes_eqb_neq a b : bytes_eqb a b = false <-> a <> b.
Proof.
  split.
  - intros H E. apply bytes_eqb_eq in E. congruence.
  - intros H. destruct (bytes_eqb a b) eqn:E; [|reflexivity]. apply bytes_eqb_eq in E. contradiction.
Qed.

Lemma xor_bytes_length a b : length (xor_bytes a b) = Nat.min (length a) (length b).
Proof. revert b; induction a as [|x a IH]; intros [|y b]; cbn; auto. Qed.
Lemma xor_xor a b : (length a <= length b)%nat -> xor_bytes (xor_bytes a b) b = a.
Proof.
  revert b; induction a as [|x a IH]; intros [|y b] H; cbn in *; try reflexivity; try lia.
  rewrite IH by lia. f_equal. rewrite Z.lxor_assoc, Z.lxor_nilpotent, Z.lxor_0_r. reflexivity.
Qed.

Lemma overwrite_length d s : length (overwrite d s) = length d.
Proof. revert s; induction d as [|x d IH]; intros [|y s]; cbn; auto. Qed.
Lemma copy_at_length d off s : length (copy_at d off s) = length d.
Proof.
  unfold copy_at. rewrite app_length, overwrite_length, firstn_length, skipn_length. lia.
Qed.

Lemma firstn_app_len {A} n (a b : list A) : length a = n -> firstn n (a ++ b) = a.
Proof. intros <-. apply firstn_app_exact. Qed.
Lemma skipn_app_len {A} n (a b : list A) : length a = n -> skipn n (a ++ b) = b.
Proof. intros <-. apply skipn_app_exact. Qed.

Definition len16 (b : list Z) : Prop := length b = 16%nat.

Lemma chunks_f_cons k l : l <> [] -> chunks_f (S k) l = firstn 16 l :: chunks_f k (skipn 16 l).
Proof. destruct l; [congruence|reflexivity]. Qed.
Lemma chunks_f_nil k : chunks_f k [] = [].
Proof. destruct k; reflexivity. Qed.

Lemma chunks_f_spec n : forall fuel l, length l = (16 * n)%nat -> (n <= fuel)%nat ->
  concat (chunks_f fuel l) = l /\ Forall len16 (chunks_f fuel l) /\ length (chunks_f fuel l) = n.
Proof.
  induction n as [|n IH]; intros fuel l Hl Hf.
  - destruct l; [|cbn in Hl; lia]. rewrite chunks_f_nil. cbn. auto.
  - destruct fuel as [|k]; [lia|].
    assert (l <> []) by (intros ->; cbn in Hl; lia).
    rewrite chunks_f_cons by assumption.
    destruct (IH k (skipn 16 l)) as (C & F & L); [rewrite skipn_length; lia|lia|].
    cbn [concat length]. rewrite C, firstn_skipn. split; [reflexivity|]. split; [|lia].
    constructor; [|exact F]. unfold len16. rewrite firstn_length. lia.
Qed.

Lemma chunks16_spec n l : length l = (16 * n)%nat ->
  concat (chunks16 l) = l /\ Forall len16 (chunks16 l) /\ length (chunks16 l) = n.
Proof. intros H. apply chunks_f_spec; lia. Qed.

Lemma concat_len16 bs : Forall len16 bs -> length (concat bs) = (16 * length bs)%nat.
Proof.
  induction 1 as [|b bs Hb _ IH]; cbn; [reflexivity|]. rewrite app_length, IH. unfold len16 in Hb. lia.
Qed.

Lemma chunks_f_concat bs : forall fuel, Forall len16 bs -> (length bs <= fuel)%nat -> chunks_f fuel (concat bs) = bs.
Proof.
  induction bs as [|b bs IH]; intros fuel F Hf.
  - apply chunks_f_nil.
  - inversion F as [|? ? Hb F']; subst. destruct fuel as [|k]; [cbn in Hf; lia|].
    cbn [concat]. unfold len16 in Hb.
    rewrite chunks_f_cons by (destruct b; cbn in *; [lia|congruence]).
    rewrite (firstn_app_len 16 b), (skipn_app_len 16 b) by exact Hb. f_equal. apply IH; [exact F'|cbn in Hf; lia].
Qed.
Lemma chunks16_concat bs : Forall len16 bs -> chunks16 (concat bs) = bs.
Proof.
  intros F. unfold chunks16. apply chunks_f_concat; [exact F|]. rewrite concat_len16 by exact F. lia.
Qed.

(* ---------- IGE ---------- *)
Section IgeProofs.
  Variables f g : list Z -> list Z.
  Hypothesis gf : forall b, length b = 16%nat -> g (f b) = b.
  Hypothesis flen : forall b, length b = 16%nat -> length (f b) = 16%nat.

  Lemma ige_enc_blocks_len16 bs : forall c m, Forall len16 bs -> len16 c -> len16 m ->
    Forall len16 (ige_enc_blocks f c m bs) /\ length (ige_enc_blocks f c m bs) = length bs.
  Proof.
    induction bs as [|p t IH]; intros c m F Hc Hm; cbn; [auto|].
    inversion F as [|? ? Hp F']; subst. unfold len16 in *.
    assert (length (xor_bytes (f (xor_bytes p c)) m) = 16%nat) as Hy.
    { rewrite xor_bytes_length, flen; [lia|]. rewrite xor_bytes_length; lia. }
    destruct (IH (xor_bytes (f (xor_bytes p c)) m) p F' Hy Hp) as [A B].
    split; [constructor; assumption|lia].
  Qed.

  Lemma ige_blocks_dec_enc bs : forall c m, Forall len16 bs -> len16 c -> len16 m ->
    ige_dec_blocks g c m (ige_enc_blocks f c m bs) = bs.
  Proof.
    induction bs as [|p t IH]; intros c m F Hc Hm; cbn; [reflexivity|].
    inversion F as [|? ? Hp F']; subst. unfold len16 in *.
    assert (length (xor_bytes p c) = 16%nat) as Hq by (rewrite xor_bytes_length; lia).
    assert (length (xor_bytes (f (xor_bytes p c)) m) = 16%nat) as Hy
      by (rewrite xor_bytes_length, flen by exact Hq; lia).
    rewrite (xor_xor (f (xor_bytes p c)) m) by (rewrite flen by exact Hq; lia).
    rewrite gf by exact Hq. rewrite xor_xor by lia. f_equal. apply IH; assumption.
  Qed.
End IgeProofs.

Lemma ige_dec_blocks_len16 g (glen : forall b, length b = 16%nat -> length (g b) = 16%nat) bs :
  forall c m, Forall len16 bs -> len16 c -> len16 m ->
  Forall len16 (ige_dec_blocks g c m bs) /\ length (ige_dec_blocks g c m bs) = length bs.
Proof.
  induction bs as [|y t IH]; intros c m F Hc Hm; cbn; [auto|].
  inversion F as [|? ? Hy F']; subst. unfold len16 in *.
  assert (length (xor_bytes (g (xor_bytes y m)) c) = 16%nat) as Hp.
  { rewrite xor_bytes_length, glen; [lia|]. rewrite xor_bytes_length; lia. }
  destruct (IH y (xor_bytes (g (xor_bytes y m)) c) F' Hy Hp) as [A B].
  split; [constructor; assumption|lia].
Qed.

(* enc after dec (needs f (g b) = b): used for the "accepted => peer output" characterisation *)
Lemma ige_blocks_enc_dec f g
      (fg : forall b, length b = 16%nat -> f (g b) = b)
      (glen : forall b, length b = 16%nat -> length (g b) = 16%nat) bs :
  forall c m, Forall len16 bs -> len16 c -> len16 m ->
  ige_enc_blocks f c m (ige_dec_blocks g c m bs) = bs.
Proof.
  induction bs as [|y t IH]; intros c m F Hc Hm; cbn; [reflexivity|].
  inversion F as [|? ? Hy F']; subst. unfold len16 in *.
  assert (length (xor_bytes y m) = 16%nat) as Hq by (rewrite xor_bytes_length; lia).
  assert (length (xor_bytes (g (xor_bytes y m)) c) = 16%nat) as Hp
    by (rewrite xor_bytes_length, glen by exact Hq; lia).
  rewrite (xor_xor (g (xor_bytes y m)) c) by (rewrite glen by exact Hq; lia).
  rewrite fg by exact Hq. rewrite xor_xor by lia. f_equal. apply IH; assumption.
Qed.

Lemma iv_split iv : length iv = 32%nat -> len16 (firstn 16 iv) /\ len16 (skipn 16 iv).
Proof. intros H; unfold len16; rewrite firstn_length, skipn_length; lia. Qed.

Lemma ige_enc_raw_length f (flen : forall b, length b = 16%nat -> length (f b) = 16%nat) iv src n :
  length iv = 32%nat -> length src = (16 * n)%nat -> length (ige_enc_raw f iv src) = length src.
Proof.
  intros Hiv Hs. destruct (iv_split iv Hiv) as [Hc Hm]. destruct (chunks16_spec n src Hs) as (_ & F & L).
  unfold ige_enc_raw. destruct (ige_enc_blocks_len16 f flen (chunks16 src) _ _ F Hc Hm) as [A B].
  rewrite concat_len16 by exact A. lia.
Qed.
Lemma ige_dec_raw_length g (glen : forall b, length b = 16%nat -> length (g b) = 16%nat) iv src n :
  length iv = 32%nat -> length src = (16 * n)%nat -> length (ige_dec_raw g iv src) = length src.
Proof.
  intros Hiv Hs. destruct (iv_split iv Hiv) as [Hc Hm]. destruct (chunks16_spec n src Hs) as (_ & F & L).
  unfold ige_dec_raw. destruct (ige_dec_blocks_len16 g glen (chunks16 src) _ _ F Hc Hm) as [A B].
  rewrite concat_len16 by exact A. lia.
Qed.

Lemma ige_raw_dec_enc f g
      (gf : forall b, length b = 16%nat -> g (f b) = b)
      (flen : forall b, length b = 16%nat -> length (f b) = 16%nat) iv src n :
  length iv = 32%nat -> length src = (16 * n)%nat -> ige_dec_raw g iv (ige_enc_raw f iv src) = src.
Proof.
  intros Hiv Hs. destruct (iv_split iv Hiv) as [Hc Hm]. destruct (chunks16_spec n src Hs) as (C & F & L).
  unfold ige_dec_raw, ige_enc_raw.
  destruct (ige_enc_blocks_len16 f flen (chunks16 src) _ _ F Hc Hm) as [A B].
  rewrite chunks16_concat by exact A.
  rewrite (ige_blocks_dec_enc f g gf flen) by assumption. exact C.
Qed.
Lemma ige_raw_enc_dec f g
      (fg : forall b, length b = 16%nat -> f (g b) = b)
      (glen : forall b, length b = 16%nat -> length (g b) = 16%nat) iv src n :
  length iv = 32%nat -> length src = (16 * n)%nat -> ige_enc_raw f iv (ige_dec_raw g iv src) = src.
Proof.
  intros Hiv Hs. destruct (iv_split iv Hiv) as [Hc Hm]. destruct (chunks16_spec n src Hs) as (C & F & L).
  unfold ige_dec_raw, ige_enc_raw.
  destruct (ige_dec_blocks_len16 g glen (chunks16 src) _ _ F Hc Hm) as [A B].
  rewrite chunks16_concat by exact A.
  rewrite (ige_blocks_enc_dec f g fg glen) by assumption. exact C.
Qed.

Lemma rem16_mult (l : list Z) : Z.rem (Z.of_nat (length l)) 16 = 0 <-> exists n, length l = (16 * n)%nat.
Proof.
  rewrite Z.rem_mod_nonneg by lia. split.
  - intros H. exists (Z.to_nat (Z.of_nat (length l) / 16)).
    pose proof (Z.div_mod (Z.of_nat (length l)) 16 ltac:(lia)).
    pose proof (Z.div_pos (Z.of_nat (length l)) 16 ltac:(lia) ltac:(lia)). lia.
  - intros [n H]. rewrite H. rewrite Nat2Z.inj_mul. change (Z.of_nat 16) with 16.
    rewrite Z.mul_comm. apply Z_mod_mult.
Qed.

(* ---------- sides ---------- *)
Lemma other_other s : other (other s) = s.
Proof. destruct s; vm_compute; reflexivity. Qed.
Lemma other_neq s : other s <> s.
Proof. destruct s; vm_compute; discriminate. Qed.
Lemma x_of_cases s : x_of s = match s with Client => 0 | Server => 8 end.
Proof. destruct s; vm_compute; reflexivity. Qed.

(* ---------- countPadding ---------- *)
Definition padr (r : Z) : Z :=
  let p := Z.rem (16 - r) 16 in if p <? 12 then p + 16 else p.
Lemma padr_spec r : 0 <= r < 16 -> 12 <= padr r <= 27 /\ (r + padr r) mod 16 = 0.
Proof.
  intros H.
  assert (r = 0 \/ r = 1 \/ r = 2 \/ r = 3 \/ r = 4 \/ r = 5 \/ r = 6 \/ r = 7 \/ r = 8 \/ r = 9 \/
          r = 10 \/ r = 11 \/ r = 12 \/ r = 13 \/ r = 14 \/ r = 15) as C by lia.
  repeat (destruct C as [->|C]; [vm_compute; intuition discriminate|]). subst; vm_compute; intuition discriminate.
Qed.
Lemma count_padding_spec l rb : 0 <= l ->
  12 <= count_padding_go l rb <= 267 /\ (l + count_padding_go l rb) mod 16 = 0.
Proof.
  intros Hl. unfold count_padding_go.
  rewrite (Z.rem_mod_nonneg l 16) by lia.
  change 15 with (Z.ones 4). rewrite Z.land_ones by lia. change (2 ^ 4) with 16.
  pose proof (Z.mod_pos_bound l 16 ltac:(lia)) as Hr.
  pose proof (Z.mod_pos_bound rb 16 ltac:(lia)) as Ht.
  pose proof (padr_spec (l mod 16) Hr) as [P1 P2]. unfold padr in P1, P2.
  set (p := Z.rem (16 - l mod 16) 16) in *.
  set (q := if p <? 12 then p + 16 else p) in *.
  split; [lia|].
  pose proof (Z.div_mod l 16 ltac:(lia)) as D.
  replace (l + (q + rb mod 16 * 16)) with ((l mod 16 + q) + (l / 16 + rb mod 16) * 16) by lia.
  rewrite Z_mod_plus_full. exact P2.
Qed.

(* ---------- header codec ---------- *)
Lemma get_i64_at l pre v rest off :
  l = pre ++ le_enc 8 v ++ rest -> length pre = off -> - 2 ^ 63 <= v < 2 ^ 63 -> get_i64 l off = v.
Proof.
  intros -> <- Hv. unfold get_i64. rewrite skipn_app_exact, firstn_le_enc_app, le_dec_enc_mod.
  change (256 ^ Z.of_nat 8) with (2 ^ 64). apply (to_of_signed 64 v); [lia|exact Hv].
Qed.
Lemma get_i32_at l pre v rest off :
  l = pre ++ le_enc 4 v ++ rest -> length pre = off -> - 2 ^ 31 <= v < 2 ^ 31 -> get_i32 l off = v.
Proof.
  intros -> <- Hv. unfold get_i32. rewrite skipn_app_exact, firstn_le_enc_app, le_dec_enc_mod.
  change (256 ^ Z.of_nat 4) with (2 ^ 32). apply (to_of_signed 32 v); [lia|exact Hv].
Qed.

Lemma encode_data_length h n body : length (encode_data h n body) = (32 + length body)%nat.
Proof. unfold encode_data. rewrite !app_length, !le_enc_length. lia. Qed.

Lemma parse_encode h n body : hdr_ok h -> - 2 ^ 31 <= n < 2 ^ 31 ->
  parse_data (encode_data h n body) = {| d_hdr := h; d_len := n; d_body := body |}.
Proof.
  intros (H1 & H2 & H3 & H4) Hn. destruct h as [a b c d]; cbn [h_salt h_session h_msg_id h_seq_no] in *.
  unfold parse_data, encode_data; cbn [h_salt h_session h_msg_id h_seq_no].
  set (A := le_enc 8 a). set (B := le_enc 8 b). set (C := le_enc 8 c). set (D := le_enc 4 d). set (E := le_enc 4 n).
  assert (length A = 8%nat /\ length B = 8%nat /\ length C = 8%nat /\ length D = 4%nat /\ length E = 4%nat)
    as (LA & LB & LC & LD & LE) by (unfold A, B, C, D, E; rewrite !le_enc_length; auto).
  f_equal; [f_equal|..].
  - apply (get_i64_at _ [] a (B ++ C ++ D ++ E ++ body)); [reflexivity|reflexivity|assumption].
  - apply (get_i64_at _ A b (C ++ D ++ E ++ body)); [reflexivity|assumption|assumption].
  - apply (get_i64_at _ (A ++ B) c (D ++ E ++ body)); [rewrite <- !app_assoc; reflexivity|rewrite app_length; lia|assumption].
  - apply (get_i32_at _ (A ++ B ++ C) d (E ++ body)); [rewrite <- !app_assoc; reflexivity|rewrite !app_length; lia|assumption].
  - apply (get_i32_at _ (A ++ B ++ C ++ D) n body); [rewrite <- !app_assoc; reflexivity|rewrite !app_length; lia|assumption].
Qed.

(* ---------- the round trip ---------- *)
Section RoundTrip.
  Variable sha256 : list Z -> list Z.
  Variables aes_enc aes_dec : list Z -> list Z -> list Z.

  Lemma message_key_length key pt s : length (message_key sha256 key pt s) = 16%nat.
  Proof. unfold message_key, message_key_of_large. rewrite copy_at_length. reflexivity. Qed.
  Lemma aes_key_go_length a b : length (aes_key_go a b) = 32%nat.
  Proof.
    unfold aes_key_go. rewrite !copy_at_length, app_length, copy_at_length. reflexivity.
  Qed.
  Lemma keys_iv_length key mk s : length (snd (keys sha256 key mk s)) = 32%nat.
  Proof. unfold keys, aes_iv_go. cbn [snd]. apply aes_key_go_length. Qed.
  Lemma keys_key_length key mk s : length (fst (keys sha256 key mk s)) = 32%nat.
  Proof. unfold keys. cbn [fst]. apply aes_key_go_length. Qed.

  Lemma ige_guard_true iv src n : length iv = 32%nat -> length src = (16 * n)%nat -> ige_guard iv src = true.
  Proof.
    intros Hiv Hs. unfold ige_guard. rewrite Hiv. cbn [Z.of_nat]. apply andb_true_iff. split; [reflexivity|].
    apply Z.eqb_eq. apply rem16_mult. exists n; exact Hs.
  Qed.

  (* seal / decrypt on an arbitrary padded plaintext *)
  Lemma open_envelope_app kid mk ct : length kid = 8%nat -> length mk = 16%nat ->
    open_envelope (kid ++ mk ++ ct) = Some (kid, mk, ct).
  Proof.
    intros Hk Hm. unfold open_envelope. rewrite !app_length, Hk, Hm.
    destruct (Z.ltb_spec (Z.of_nat (8 + (16 + length ct))) 24); [lia|].
    rewrite (firstn_app_len 8 kid) by exact Hk. rewrite (skipn_app_len 8 kid) by exact Hk.
    rewrite (firstn_app_len 16 mk) by exact Hm.
    rewrite app_assoc, (skipn_app_len 24 (kid ++ mk)) by (rewrite app_length; lia). reflexivity.
  Qed.

  Hypothesis Haes : aes_inverse aes_enc aes_dec.

  Lemma seal_ok s k padded n : length padded = (16 * n)%nat ->
    seal sha256 aes_enc s k padded = Ok (sealed sha256 aes_enc s k padded).
  Proof.
    intros Hn. unfold seal, sealed.
    pose proof (keys_iv_length (ak_value k) (message_key sha256 (ak_value k) padded s) s) as Hiv.
    destruct (keys sha256 (ak_value k) (message_key sha256 (ak_value k) padded s) s) as [key iv]; cbn [fst snd] in *.
    unfold ige_enc. rewrite (ige_guard_true iv padded n Hiv Hn). reflexivity.
  Qed.

  Lemma decrypt_sealed s k padded n :
    length (ak_id k) = 8%nat -> length padded = (16 * n)%nat ->
    decrypt sha256 aes_dec (other s) k (sealed sha256 aes_enc s k padded) = (do d <- decode_data padded; check_lengths d) /\
    length (sealed sha256 aes_enc s k padded) = (24 + length padded)%nat.
  Proof.
    intros Hk Hn. unfold sealed.
    set (mk := message_key sha256 (ak_value k) padded s) in *.
    pose proof (message_key_length (ak_value k) padded s) as Hmk. fold mk in Hmk.
    pose proof (keys_iv_length (ak_value k) mk s) as Hiv.
    destruct (keys sha256 (ak_value k) mk s) as [key iv] eqn:K; cbn [fst snd] in *.
    assert (forall b, length b = 16%nat -> aes_dec key (aes_enc key b) = b) as gf by (intros b Hb; apply Haes, Hb).
    assert (forall b, length b = 16%nat -> length (aes_enc key b) = 16%nat) as flen by (intros b Hb; apply Haes, Hb).
    pose proof (ige_enc_raw_length (aes_enc key) flen iv padded n Hiv Hn) as Hl.
    split.
    2:{ rewrite !app_length, Hk, Hmk, Hl. lia. }
    unfold decrypt. rewrite (open_envelope_app _ _ _ Hk Hmk).
    rewrite bytes_eqb_refl. cbn [negb].
    assert (Z.rem (Z.of_nat (length (ige_enc_raw (aes_enc key) iv padded))) 16 = 0) as R
      by (apply rem16_mult; exists n; lia).
    rewrite R. cbn [Z.eqb negb]. rewrite other_other, K.
    unfold ige_dec. rewrite (ige_guard_true iv _ n Hiv (eq_trans Hl Hn)). cbn [bind].
    rewrite (ige_raw_dec_enc (aes_enc key) (aes_dec key) gf flen iv padded n Hiv Hn).
    fold mk. rewrite bytes_eqb_refl. cbn [negb]. reflexivity.
  Qed.

  Theorem encrypt_plain_roundtrip s k h mlen body rnd :
    length (ak_id k) = 8%nat -> hdr_ok h ->
    rnd_enough (32 + Z.of_nat (length body)) rnd ->
    exists ct pad,
      encrypt_data sha256 aes_enc s k h mlen body rnd = Ok ct /\
      decrypt sha256 aes_dec (other s) k ct
        = (do d <- decode_data (encode_data h mlen (body ++ pad)); check_lengths d) /\
      length ct = (24 + 32 + length body + length pad)%nat /\
      (Z.of_nat (length ct) - 24) mod 16 = 0 /\
      12 <= Z.of_nat (length pad) <= 267.
  Proof.
    intros Hk Hh Hr. unfold encrypt_data, encrypt_plain, padding_for.
    destruct rnd as [|rb rnd']; [contradiction|]. cbn [rnd_enough] in Hr.
    rewrite encode_data_length, Nat2Z.inj_add. change (Z.of_nat 32) with 32.
    set (pn := count_padding_go (32 + Z.of_nat (length body)) rb) in *.
    destruct (count_padding_spec (32 + Z.of_nat (length body)) rb ltac:(lia)) as [P1 P2]. fold pn in P1, P2.
    destruct (Z.ltb_spec (Z.of_nat (length rnd')) pn); [lia|]. cbn [bind].
    set (pad := firstn (Z.to_nat pn) rnd').
    assert (Z.of_nat (length pad) = pn) as Hpad by (unfold pad; rewrite firstn_length; lia).
    set (padded := encode_data h mlen body ++ pad).
    assert (exists n, length padded = (16 * n)%nat) as [n Hn].
    { apply rem16_mult. rewrite Z.rem_mod_nonneg by lia. unfold padded.
      rewrite app_length, encode_data_length, !Nat2Z.inj_add, Hpad. change (Z.of_nat 32) with 32.
      rewrite <- P2. f_equal. }
    pose proof (seal_ok s k padded n Hn) as S.
    exists (sealed sha256 aes_enc s k padded), pad. split; [exact S|].
    destruct (decrypt_sealed s k padded n Hk Hn) as [D L].
    split.
    { rewrite D. unfold padded, encode_data. rewrite <- !app_assoc. reflexivity. }
    split.
    { rewrite L. unfold padded. rewrite app_length, encode_data_length. lia. }
    split; [|lia].
    rewrite L. unfold padded. rewrite app_length, encode_data_length, !Nat2Z.inj_add, Hpad.
    change (Z.of_nat 24) with 24. change (Z.of_nat 32) with 32.
    replace (24 + (32 + Z.of_nat (length body) + pn) - 24) with (32 + Z.of_nat (length body) + pn) by lia.
    exact P2.
  Qed.

  Lemma decode_check_ok h p pad :
    hdr_ok h -> Z.of_nat (length p) mod 4 = 0 -> Z.of_nat (length p) < 2 ^ 31 ->
    c_minPadding <= Z.of_nat (length pad) <= c_maxPadding ->
    (do d <- decode_data (encode_data h (Z.of_nat (length p)) (p ++ pad)); check_lengths d)
    = Ok {| d_hdr := h; d_len := Z.of_nat (length p); d_body := p ++ pad |}.
  Proof.
    intros Hh H4 Hlt Hpad. unfold decode_data.
    rewrite encode_data_length.
    destruct (Z.ltb_spec (Z.of_nat (32 + length (p ++ pad))) 32); [lia|].
    rewrite parse_encode by (try assumption; lia). cbn [d_len d_body].
    rewrite app_length, Nat2Z.inj_add.
    destruct (Z.gtb_spec (Z.of_nat (length p)) (Z.of_nat (length p) + Z.of_nat (length pad))); [lia|].
    cbn [bind]. unfold check_lengths. cbn [d_len d_body]. rewrite app_length, Nat2Z.inj_add.
    destruct (Z.ltb_spec (Z.of_nat (length p)) 0); [lia|].
    rewrite Z.rem_mod_nonneg by lia. rewrite H4. cbn [Z.eqb negb].
    destruct (Z.ltb_spec (Z.of_nat (length p) + Z.of_nat (length pad) - Z.of_nat (length p)) c_minPadding); [lia|].
    destruct (Z.gtb_spec (Z.of_nat (length p) + Z.of_nat (length pad) - Z.of_nat (length p)) c_maxPadding); [lia|].
    reflexivity.
  Qed.

  (* C04 *)
  Theorem encrypt_decrypt_roundtrip s k h p rnd :
    length (ak_id k) = 8%nat -> hdr_ok h ->
    Z.of_nat (length p) mod 4 = 0 -> Z.of_nat (length p) < 2 ^ 31 ->
    rnd_enough (32 + Z.of_nat (length p)) rnd ->
    exists ct pad,
      encrypt sha256 aes_enc s k h p rnd = Ok ct /\
      decrypt sha256 aes_dec (other s) k ct = Ok {| d_hdr := h; d_len := Z.of_nat (length p); d_body := p ++ pad |} /\
      decrypt_msg sha256 aes_dec (other s) k ct = Ok (h, p) /\
      length ct = (24 + 32 + length p + length pad)%nat /\
      (Z.of_nat (length ct) - 24) mod 16 = 0 /\
      12 <= Z.of_nat (length pad) <= 267 /\ c_minPadding <= 12 /\ 267 <= c_maxPadding.
  Proof.
    intros Hk Hh H4 Hlt Hr.
    destruct (encrypt_plain_roundtrip s k h (Z.of_nat (length p)) p rnd Hk Hh Hr) as (ct & pad & E & D & L & M & P).
    exists ct, pad. unfold encrypt. unfold encrypt_data in E.
    assert (267 <= c_maxPadding) as HM by (vm_compute; discriminate).
    assert (c_minPadding <= 12) as Hm by (vm_compute; discriminate).
    rewrite decode_check_ok in D by (try assumption; lia).
    repeat split; try assumption; try lia.
    unfold decrypt_msg. rewrite D. cbn [bind d_hdr]. unfold d_data. cbn [d_len d_body].
    rewrite Nat2Z.id. rewrite firstn_app_exact. reflexivity.
  Qed.
  (* the gzip path: any wrapping of the payload with a left inverse *)
  Theorem roundtrip_wrapped (wrap : list Z -> list Z) (unwrap : list Z -> option (list Z)) :
    (forall p, unwrap (wrap p) = Some p) ->
    forall (s : side) (k : authkey) (h : hdr) (p rnd : list Z),
      length (ak_id k) = 8%nat -> hdr_ok h ->
      Z.of_nat (length (wrap p)) mod 4 = 0 -> Z.of_nat (length (wrap p)) < 2 ^ 31 ->
      rnd_enough (32 + Z.of_nat (length (wrap p))) rnd ->
      exists ct, encrypt sha256 aes_enc s k h (wrap p) rnd = Ok ct /\
                 exists q, decrypt_msg sha256 aes_dec (other s) k ct = Ok (h, q) /\ unwrap q = Some p.
  Proof.
    intros Hw s k h p rnd Hk Hh H4 Hl Hr.
    destruct (encrypt_decrypt_roundtrip s k h (wrap p) rnd Hk Hh H4 Hl Hr) as (ct & pad & E & _ & D & _).
    exists ct. split; [exact E|]. exists (wrap p). split; [exact D|apply Hw].
  Qed.
  (* Conn.newEncryptedMessage: whichever branch the compression threshold selects, the server
     decrypts the session's header and the body chosen by that branch *)
  Theorem conn_roundtrip threshold k salt session msg_id seq_no payload gz rnd :
    let h := {| h_salt := salt; h_session := session; h_msg_id := msg_id; h_seq_no := seq_no |} in
    let body := conn_body threshold payload gz in
    length (ak_id k) = 8%nat -> hdr_ok h ->
    Z.of_nat (length body) mod 4 = 0 -> Z.of_nat (length body) < 2 ^ 31 ->
    rnd_enough (32 + Z.of_nat (length body)) rnd ->
    exists ct, conn_encrypt sha256 aes_enc threshold k salt session msg_id seq_no payload gz rnd = Ok ct /\
               decrypt_msg sha256 aes_dec Server k ct = Ok (h, body).
  Proof.
    intros h body Hk Hh H4 Hl Hr.
    destruct (encrypt_decrypt_roundtrip Client k h body rnd Hk Hh H4 Hl Hr) as (ct & pad & E & _ & D & _).
    exists ct. split; [|exact D].
    unfold conn_encrypt. fold h. unfold body, conn_body in E.
    destruct (threshold <=? 0); [exact E|].
    destruct (Z.of_nat (length payload) >? threshold); exact E.
  Qed.
  (* composed with the gzip wrapping: the server recovers the caller's payload on every branch *)
  Theorem conn_roundtrip_payload (wrap : list Z -> list Z) (unwrap : list Z -> option (list Z))
          threshold k salt session msg_id seq_no payload rnd :
    (forall p, unwrap (wrap p) = Some p) ->
    let h := {| h_salt := salt; h_session := session; h_msg_id := msg_id; h_seq_no := seq_no |} in
    let body := conn_body threshold payload (wrap payload) in
    length (ak_id k) = 8%nat -> hdr_ok h ->
    Z.of_nat (length body) mod 4 = 0 -> Z.of_nat (length body) < 2 ^ 31 ->
    rnd_enough (32 + Z.of_nat (length body)) rnd ->
    exists ct q,
      conn_encrypt sha256 aes_enc threshold k salt session msg_id seq_no payload (wrap payload) rnd = Ok ct /\
      decrypt_msg sha256 aes_dec Server k ct = Ok (h, q) /\
      (if (threshold <=? 0) || negb (Z.of_nat (length payload) >? threshold)
       then q = payload else unwrap q = Some payload).
  Proof.
    intros Hw h body Hk Hh H4 Hl Hr.
    destruct (conn_roundtrip threshold k salt session msg_id seq_no payload (wrap payload) rnd Hk Hh H4 Hl Hr) as (ct & E & D).
    exists ct, body. split; [exact E|]. split; [exact D|].
    unfold body, conn_body. destruct (threshold <=? 0); [reflexivity|].
    destruct (Z.of_nat (length payload) >? threshold); cbn; [apply Hw|reflexivity].
  Qed.
End RoundTrip.

Lemma rnd_enough_268 n rnd : 0 <= n -> (268 <= length rnd)%nat -> rnd_enough n rnd.
Proof.
  intros Hn H. destruct rnd as [|rb rnd']; [cbn in H; lia|]. cbn [rnd_enough]. cbn in H.
  pose proof (count_padding_spec n rb Hn). lia.
Qed.
