(* The bound on RUNNING connections (Run not returned), under the environment premise strict_ok. *)
From Coq Require Import ZArith List Bool Arith Lia.
From TD Require Import Gen.PoolDecide Model.Pool Proof.PoolTac Proof.Pool Proof.PoolThm.
Import ListNotations.
Open Scope Z_scope.

Lemma exited_upd : forall cs c r c', exited_in (updZ cs c (Some r)) c' = if Z.eqb c' c then c_exited r else exited_in cs c'.
Proof. intros. unfold exited_in, updZ. destruct (Z.eqb c' c); reflexivity. Qed.
Lemma exited_some : forall cs c r, cs c = Some r -> exited_in cs c = c_exited r.
Proof. intros. unfold exited_in. rewrite H. reflexivity. Qed.

Record K (st : state) : Prop := {
  k_mark : forall x c, s_pc st x = PMarkDead c -> exited_in (s_conns st) c = true;
  k_del : forall c, deleted_in (s_conns st) c = true -> exited_in (s_conns st) c = true
}.

Lemma K_init : forall max, K (init max).
Proof. intros; constructor; simpl; intros; [discriminate | unfold deleted_in in *; simpl in *; discriminate]. Qed.

Ltac kc := cbn [s_pc s_conns set_pc create set_conn dead_region count_new register set_free set_reqs set_chan set_cancelled set_uncancelled set_closed].
Ltac kpc := unfold updN in *;
  repeat match goal with
  | H : context [Nat.eqb ?a ?b] |- _ => destruct (Nat.eqb_spec a b); subst
  end; try congruence; eauto.
Ltac kconn G := rewrite ?deleted_upd, ?exited_upd in *;
  repeat match goal with
  | H : context [Z.eqb ?a ?b] |- _ => destruct (Z.eqb_spec a b); subst
  | |- context [Z.eqb ?a ?b] => destruct (Z.eqb_spec a b); subst
  end; cbn [c_exited c_deleted c_dead c_ready] in *;
  try rewrite (exited_some _ _ _ G) in *; try rewrite (deleted_some _ _ _ G) in *; try congruence; eauto.

Lemma K_step : forall st e st', K st -> strict_ok st e -> step st e = Some st' -> K st'.
Proof.
  intros st e st' [KM KD] S H.
  destruct e; inv_step H; try (destruct o; inv_step H);
    try solve [constructor; kc; intros; kpc];
    try solve [destruct alive; constructor; kc; intros; kpc];
    try solve [destruct w; constructor; kc; intros; kpc].
  - (* ECreate *)
    constructor; kc; intros.
    + rewrite exited_upd. unfold updN in *. destruct (Nat.eqb_spec x0 x); [congruence|].
      destruct (Z.eqb_spec c0 c); subst; [|eauto]. specialize (KM _ _ H). unfold exited_in in KM. rewrite G1 in KM. discriminate.
    + kconn G1.
  - (* EInvRet *)
    constructor; kc; intros; [|eauto]. unfold updN in *. destruct (Nat.eqb_spec x0 x); subst; [|eauto].
    destruct md; [|congruence]. injection H as <-. apply eqb_prop in G1. symmetry in G1. apply andb_prop in G1. destruct G1 as [R _].
    destruct r; try discriminate. simpl in S. auto.
  - (* EDeadBy *)
    apply andb_prop in G2. destruct G2 as [E _]. apply Z.eqb_eq in E. subst.
    constructor; kc; intros.
    + unfold updN in *. destruct (Nat.eqb_spec x0 x); [congruence|]. pose proof (KM _ _ G0) as X. pose proof (KM _ _ H) as Y. kconn G1.
    + pose proof (KM _ _ G0) as X. kconn G1.
  - (* ESwapRun *)
    apply andb_prop in G1. destruct G1 as [E _].
    constructor; kc; intros; kconn G0.
  - (* ERunDead *)
    apply andb_prop in G1. destruct G1 as [D _].
    assert (X : exited_in (s_conns st) c = true) by (apply KD; rewrite (deleted_some _ _ _ G0); assumption).
    constructor; kc; intros; kconn G0.
  - (* EReady *)
    pose proof (KD c) as X; rewrite (deleted_some _ _ _ G0), (exited_some _ _ _ G0) in X.
    constructor; kc; intros; kconn G0.
    all: try (match goal with H : s_pc _ ?x = PMarkDead ?c' |- _ => let Y := fresh in pose proof (KM x c' H) as Y; rewrite (exited_some _ _ _ G0) in Y; exact Y end).
  - (* ERunExit *)
    constructor; kc; intros; kconn G0.
Qed.

Lemma K_run : forall l st st', K st -> strict_run st l -> run st l = Some st' -> K st'.
Proof.
  induction l as [|e t IH]; simpl; intros st st' Kst S H.
  - congruence.
  - destruct S as [S1 S2]. destruct (step st e) eqn:E; [|discriminate]. eapply IH; [|eassumption|eassumption].
    eapply K_step; eassumption.
Qed.

Lemma running_le_live : forall cs l,
  (forall c, deleted_in cs c = true -> exited_in cs c = true) ->
  (forall c, dead_in cs c = true -> deleted_in cs c = true) ->
  running cs l <= live cs l.
Proof.
  intros cs l KD FL. induction l as [|c t IH]; simpl; [lia|].
  destruct (exited_in cs c) eqn:E; destruct (dead_in cs c) eqn:D; try lia.
  apply FL in D. apply KD in D. congruence.
Qed.

Theorem running_limit : forall max l st, run (init max) l = Some st -> strict_run (init max) l ->
  running (s_conns st) (s_created st) <= s_total st /\ (1 <= max -> running (s_conns st) (s_created st) <= max).
Proof.
  intros max l st R S.
  assert (RE : reachable max st) by (exists l; exact R).
  pose proof (K_run _ _ _ (K_init max) S R) as [KM KD].
  destruct (limit _ _ RE) as (T & L & _). destruct (inv_reachable _ _ RE).
  pose proof (running_le_live _ (s_created st) KD i_flags) as RL.
  unfold counted in T. assert (0 <= Z.of_nat (length (s_pending st))) by lia.
  split; [lia | intros M; specialize (L M); lia].
Qed.
