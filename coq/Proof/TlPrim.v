(* Proofs about the TL primitive model: round trips, alignment, exact consumption,
   totality (no Panic on any byte list) and errors on short / malformed input. *)
From Coq Require Import ZArith List Bool Lia.
From TD Require Import Lib.Bytes Lib.GoSem Lib.GoSlice Gen.TlConsts Model.TlPrim.
Import ListNotations.
Open Scope Z_scope.

(* ---------- generated constants and the padding function ---------- *)

Lemma nearest_spec l : 0 <= l ->
  nearest_padded_go l mod 4 = 0 /\ l <= nearest_padded_go l < l + 4.
Proof.
  intros H; unfold nearest_padded_go, c_Word.
  rewrite Z.quot_div_nonneg by lia.
  pose proof (Z.div_mod l 4 ltac:(lia)) as E. pose proof (Z.mod_pos_bound l 4 ltac:(lia)) as B.
  destruct (Z.ltb_spec (4 * (l / 4)) l).
  - split; [|lia]. replace (4 * (l / 4) + 4) with ((l / 4 + 1) * 4) by ring. apply Z.mod_mul; lia.
  - split; [|lia]. rewrite Z.mul_comm; apply Z.mod_mul; lia.
Qed.
Lemma nearest_fix l : 0 <= l -> l mod 4 = 0 -> nearest_padded_go l = l.
Proof.
  intros H M. destruct (nearest_spec l H) as [A B].
  pose proof (Z.div_mod l 4 ltac:(lia)). pose proof (Z.div_mod (nearest_padded_go l) 4 ltac:(lia)). lia.
Qed.

(* decodeString and decodeBytes check the same conditions (the model uses one decoder for both) *)
Lemma string_conditions_agree : forall lenb strLen,
  long_header_short_string_go lenb = long_header_short_bytes_go lenb /\
  long_payload_short_string_go lenb strLen = long_payload_short_bytes_go lenb strLen /\
  short_payload_short_string_go lenb strLen = short_payload_short_bytes_go lenb strLen /\
  short_len_invalid_string_go strLen = short_len_invalid_bytes_go strLen.
Proof. intros; repeat split; reflexivity. Qed.

(* ---------- take / peek ---------- *)

Lemma take_app p r : take (len p) (p ++ r) = Ok (p, r).
Proof.
  unfold take. rewrite len_app. pose proof (len_nonneg r).
  destruct (Z.ltb_spec (len p + len r) (len p)); [lia|].
  rewrite go_slice_prefix. cbn [bind]. rewrite <- len_app, go_slice_suffix. reflexivity.
Qed.
Lemma take_short n b : len b < n -> take n b = Err EEOF.
Proof. intros H; unfold take. destruct (Z.ltb_spec (len b) n); [reflexivity|lia]. Qed.
Lemma take_spec n b : 0 <= n ->
  (len b < n /\ take n b = Err EEOF) \/
  (n <= len b /\ take n b = Ok (firstn (Z.to_nat n) b, skipn (Z.to_nat n) b)).
Proof.
  intros Hn. unfold take. destruct (Z.ltb_spec (len b) n); [left; split; [lia|reflexivity]|right; split; [lia|]].
  rewrite go_slice_ok by lia. cbn [bind]. rewrite go_slice_ok by lia. cbn [bind].
  rewrite Z.sub_0_r. change (Z.to_nat 0) with 0%nat. cbn [skipn].
  rewrite (firstn_all2 (n := Z.to_nat (len b - n))); [reflexivity|]. rewrite skipn_length. unfold len in *. lia.
Qed.
Lemma take_ok_inv n b p r : 0 <= n -> take n b = Ok (p, r) -> b = p ++ r /\ len p = n.
Proof.
  intros Hn H. destruct (take_spec n b Hn) as [[_ E]|[L E]]; rewrite E in H; [discriminate|].
  inversion H; subst. split; [symmetry; apply firstn_skipn|].
  apply len_firstn in L || (unfold len in *; rewrite firstn_length_le by lia; lia).
Qed.
Lemma take_no_panic n b : 0 <= n -> take n b <> Panic.
Proof. intros Hn. destruct (take_spec n b Hn) as [[_ E]|[_ E]]; rewrite E; discriminate. Qed.

Lemma peek_id_app p r : len p = 4 -> peek_id (p ++ r) = Ok (le_dec p).
Proof.
  intros L. unfold peek_id, c_Word. rewrite len_app. pose proof (len_nonneg r).
  destruct (Z.ltb_spec (len p + len r) 4); [lia|]. rewrite <- L, go_slice_prefix. reflexivity.
Qed.
Lemma peek_id_spec b :
  (len b < 4 /\ peek_id b = Err EEOF) \/ (4 <= len b /\ peek_id b = Ok (le_dec (firstn 4 b))).
Proof.
  unfold peek_id, c_Word. destruct (Z.ltb_spec (len b) 4); [left; split; [lia|reflexivity]|right; split; [lia|]].
  rewrite go_slice_ok by lia. reflexivity.
Qed.
Lemma rest4_ok b : 4 <= len b -> @go_slice tl_err Z b c_Word (len b) = Ok (skipn 4 b).
Proof.
  intros L. unfold c_Word. rewrite go_slice_ok by lia.
  change (Z.to_nat 4) with 4%nat. rewrite firstn_all2; [reflexivity|].
  rewrite skipn_length. unfold len in *. lia.
Qed.
Lemma rest4_app p r : len p = 4 -> @go_slice tl_err Z (p ++ r) c_Word (len (p ++ r)) = Ok r.
Proof. intros L. unfold c_Word. rewrite <- L. apply go_slice_suffix. Qed.

(* ---------- uint32 / int32 / int ---------- *)

Lemma decode_uint32_rt v r : 0 <= v < 2 ^ 32 -> decode_uint32 (encode_uint32 v ++ r) = Ok (v, r).
Proof.
  intros H. unfold decode_uint32, encode_uint32.
  rewrite peek_id_app by (rewrite len_le_enc; reflexivity). cbn [bind].
  rewrite rest4_app by (rewrite len_le_enc; reflexivity). cbn [bind].
  rewrite le_dec_enc by (change (256 ^ Z.of_nat 4) with (2 ^ 32); lia). reflexivity.
Qed.
Lemma le_dec_enc_signed n bits v :
  bits = 8 * Z.of_nat n -> (0 < n)%nat -> - 2 ^ (bits - 1) <= v < 2 ^ (bits - 1) ->
  to_signed bits (le_dec (le_enc n v)) = v.
Proof.
  intros B N H. rewrite le_dec_enc_mod.
  replace (256 ^ Z.of_nat n) with (2 ^ bits) by (subst bits; rewrite Z.pow_mul_r by lia; reflexivity).
  apply to_of_signed; lia.
Qed.
Lemma decode_int32_rt v r : - 2 ^ 31 <= v < 2 ^ 31 -> decode_int32 (encode_int32 v ++ r) = Ok (v, r).
Proof.
  intros H. unfold decode_int32, decode_uint32, encode_int32.
  rewrite peek_id_app by (rewrite len_le_enc; reflexivity). cbn [bind].
  rewrite rest4_app by (rewrite len_le_enc; reflexivity). cbn [bind].
  rewrite (le_dec_enc_signed 4 32) by (try reflexivity; lia). reflexivity.
Qed.
Lemma decode_int_rt v r : - 2 ^ 31 <= v < 2 ^ 31 -> decode_int (encode_int v ++ r) = Ok (v, r).
Proof. exact (decode_int32_rt v r). Qed.

Lemma decode_uint32_spec b :
  (len b < 4 /\ decode_uint32 b = Err EEOF) \/
  (4 <= len b /\ decode_uint32 b = Ok (le_dec (firstn 4 b), skipn 4 b)).
Proof.
  unfold decode_uint32. destruct (peek_id_spec b) as [[L E]|[L E]]; rewrite E; cbn [bind]; [left; auto|right].
  rewrite rest4_ok by lia. split; [lia|reflexivity].
Qed.
Lemma decode_int32_spec b :
  (len b < 4 /\ decode_int32 b = Err EEOF) \/
  (4 <= len b /\ decode_int32 b = Ok (to_signed 32 (le_dec (firstn 4 b)), skipn 4 b)).
Proof.
  unfold decode_int32. destruct (decode_uint32_spec b) as [[L E]|[L E]]; rewrite E; cbn [bind]; [left; auto|right; auto].
Qed.

(* ---------- uint64 / long / double ---------- *)

Lemma decode_uint64_rt v r : 0 <= v < 2 ^ 64 -> decode_uint64 (encode_uint64 v ++ r) = Ok (v, r).
Proof.
  intros H. unfold decode_uint64, encode_uint64, c_Word. change (4 * 2) with (Z.of_nat 8).
  rewrite <- (len_le_enc 8 v), take_app. cbn [bind].
  rewrite le_dec_enc by (change (256 ^ Z.of_nat 8) with (2 ^ 64); lia). reflexivity.
Qed.
Lemma decode_long_rt v r : - 2 ^ 63 <= v < 2 ^ 63 -> decode_long (encode_long v ++ r) = Ok (v, r).
Proof.
  intros H. unfold decode_long, decode_uint64, encode_long, c_Word. change (4 * 2) with (Z.of_nat 8).
  rewrite <- (len_le_enc 8 v), take_app. cbn [bind].
  rewrite (le_dec_enc_signed 8 64) by (try reflexivity; lia). reflexivity.
Qed.
Lemma decode_double_rt bits r : 0 <= bits < 2 ^ 64 -> decode_double (encode_double bits ++ r) = Ok (bits, r).
Proof.
  intros H. unfold decode_double, decode_long, decode_uint64, encode_double, encode_uint64, c_Word.
  change (4 * 2) with (Z.of_nat 8).
  rewrite <- (len_le_enc 8 bits), take_app. cbn [bind].
  rewrite le_dec_enc by (change (256 ^ Z.of_nat 8) with (2 ^ 64); lia).
  rewrite of_to_signed by lia. reflexivity.
Qed.
Lemma decode_uint64_spec b :
  (len b < 8 /\ decode_uint64 b = Err EEOF) \/
  (8 <= len b /\ decode_uint64 b = Ok (le_dec (firstn 8 b), skipn 8 b)).
Proof.
  unfold decode_uint64, c_Word. change (4 * 2) with 8.
  destruct (take_spec 8 b ltac:(lia)) as [[L E]|[L E]]; rewrite E; cbn [bind]; [left; auto|right; auto].
Qed.
Lemma decode_long_spec b :
  (len b < 8 /\ decode_long b = Err EEOF) \/
  (8 <= len b /\ decode_long b = Ok (to_signed 64 (le_dec (firstn 8 b)), skipn 8 b)).
Proof.
  unfold decode_long. destruct (decode_uint64_spec b) as [[L E]|[L E]]; rewrite E; cbn [bind]; [left; auto|right; auto].
Qed.
Lemma decode_double_spec b :
  (len b < 8 /\ decode_double b = Err EEOF) \/
  (8 <= len b /\ decode_double b = Ok (of_signed 64 (to_signed 64 (le_dec (firstn 8 b))), skipn 8 b)).
Proof.
  unfold decode_double. destruct (decode_long_spec b) as [[L E]|[L E]]; rewrite E; cbn [bind]; [left; auto|right; auto].
Qed.

(* ---------- int128 / int256 ---------- *)

Lemma decode_int128_rt v r : len v = 16 -> decode_int128 (encode_int128 v ++ r) = Ok (v, r).
Proof. intros L. unfold decode_int128, encode_int128. rewrite <- L. apply take_app. Qed.
Lemma decode_int256_rt v r : len v = 32 -> decode_int256 (encode_int256 v ++ r) = Ok (v, r).
Proof. intros L. unfold decode_int256, encode_int256. rewrite <- L. apply take_app. Qed.

(* ---------- bool ---------- *)

Lemma decode_bool_rt v r : decode_bool (encode_bool v ++ r) = Ok (v, r).
Proof.
  unfold decode_bool, encode_bool, encode_uint32.
  rewrite peek_id_app by (rewrite len_le_enc; reflexivity). cbn [bind].
  rewrite rest4_app by (rewrite len_le_enc; reflexivity). cbn [bind].
  destruct v; vm_compute; reflexivity.
Qed.
Lemma decode_bool_spec b :
  (len b < 4 /\ decode_bool b = Err EEOF) \/
  (4 <= len b /\ le_dec (firstn 4 b) = c_TypeTrue /\ decode_bool b = Ok (true, skipn 4 b)) \/
  (4 <= len b /\ le_dec (firstn 4 b) = c_TypeFalse /\ decode_bool b = Ok (false, skipn 4 b)) \/
  (4 <= len b /\ le_dec (firstn 4 b) <> c_TypeTrue /\ le_dec (firstn 4 b) <> c_TypeFalse /\
   decode_bool b = Err EUnexpectedID).
Proof.
  unfold decode_bool. destruct (peek_id_spec b) as [[L E]|[L E]]; rewrite E; cbn [bind]; [left; auto|right].
  rewrite rest4_ok by lia. cbn [bind].
  destruct (Z.eqb_spec (le_dec (firstn 4 b)) c_TypeTrue); [left; auto|right].
  destruct (Z.eqb_spec (le_dec (firstn 4 b)) c_TypeFalse); [left; auto|right; auto].
Qed.

(* ---------- vector header ---------- *)

Lemma consume_id_app id r : 0 <= id < 2 ^ 32 -> consume_id id (encode_uint32 id ++ r) = Ok r.
Proof.
  intros H. unfold consume_id, encode_uint32.
  rewrite peek_id_app by (rewrite len_le_enc; reflexivity). cbn [bind].
  rewrite le_dec_enc by (change (256 ^ Z.of_nat 4) with (2 ^ 32); lia).
  rewrite Z.eqb_refl. cbn [negb]. apply rest4_app. rewrite len_le_enc; reflexivity.
Qed.
Lemma consume_id_spec id b :
  (len b < 4 /\ consume_id id b = Err EEOF) \/
  (4 <= len b /\ le_dec (firstn 4 b) <> id /\ consume_id id b = Err EUnexpectedID) \/
  (4 <= len b /\ le_dec (firstn 4 b) = id /\ consume_id id b = Ok (skipn 4 b)).
Proof.
  unfold consume_id. destruct (peek_id_spec b) as [[L E]|[L E]]; rewrite E; cbn [bind]; [left; auto|right].
  destruct (Z.eqb_spec (le_dec (firstn 4 b)) id); cbn [negb]; [right|left; auto].
  rewrite rest4_ok by lia. auto.
Qed.
Lemma decode_vector_header_rt n r : 0 <= n < 2 ^ 31 ->
  decode_vector_header (encode_vector_header n ++ r) = Ok (n, r).
Proof.
  intros H. unfold decode_vector_header, encode_vector_header. rewrite <- app_assoc.
  rewrite consume_id_app by (vm_compute; split; [discriminate|reflexivity]). cbn [bind].
  unfold decode_int. rewrite decode_int32_rt by lia. cbn [bind].
  destruct (Z.ltb_spec n 0); [lia|reflexivity].
Qed.

(* ---------- bytes / string ---------- *)

Lemma encode_bytes_short v : len v <= 253 ->
  encode_bytes v = [len v] ++ v ++ zeros (nearest_padded_go (len v + 1) - (len v + 1)).
Proof.
  intros H. unfold encode_bytes, c_maxSmallStringLength.
  destruct (Z.leb_spec (len v) 253); [|lia]. cbn [le_enc app].
  pose proof (len_nonneg v). rewrite Z.mod_small by lia. reflexivity.
Qed.
Lemma encode_bytes_long v : 253 < len v ->
  encode_bytes v = [254] ++ le_enc 3 (len v) ++ v ++ zeros (nearest_padded_go (len v + 4) - (len v + 4)).
Proof.
  intros H. unfold encode_bytes, c_maxSmallStringLength, c_firstLongStringByte.
  destruct (Z.leb_spec (len v) 253); [lia|]. reflexivity.
Qed.

Lemma encode_bytes_len v :
  len (encode_bytes v) = if len v <=? 253 then nearest_padded_go (len v + 1) else nearest_padded_go (len v + 4).
Proof.
  pose proof (len_nonneg v).
  destruct (Z.leb_spec (len v) 253).
  - rewrite encode_bytes_short by lia. destruct (nearest_spec (len v + 1) ltac:(lia)).
    rewrite !len_app, len_zeros by lia. change (len [len v]) with 1. lia.
  - rewrite encode_bytes_long by lia. destruct (nearest_spec (len v + 4) ltac:(lia)).
    rewrite !len_app, len_zeros, len_le_enc by lia. change (len [254]) with 1. lia.
Qed.
Lemma encode_bytes_aligned v : len (encode_bytes v) mod 4 = 0.
Proof.
  pose proof (len_nonneg v). rewrite encode_bytes_len.
  destruct (Z.leb_spec (len v) 253); apply nearest_spec; lia.
Qed.

Lemma go_index_0 {E} x s : @go_index E (x :: s) 0 = Ok x.
Proof. rewrite go_index_ok by (rewrite len_cons; pose proof (len_nonneg s); lia). reflexivity. Qed.

Lemma decode_bytes_raw_short_form v t : len v <= 253 ->
  decode_bytes_raw ([len v] ++ v ++ t) = Ok (nearest_padded_go (len v + 1), v).
Proof.
  intros H. pose proof (len_nonneg v). pose proof (len_nonneg t).
  unfold decode_bytes_raw, long_header_short_bytes_go, long_payload_short_bytes_go, short_payload_short_bytes_go, short_len_invalid_bytes_go, c_firstLongStringByte, c_maxSmallStringLength.
  assert (L : len ([len v] ++ v ++ t) = 1 + len v + len t) by (rewrite !len_app; change (len [len v]) with 1; lia).
  rewrite L. destruct (Z.eqb_spec (1 + len v + len t) 0); [lia|].
  cbn [app]. rewrite go_index_0. cbn [bind].
  destruct (Z.eqb_spec (len v) 254); [lia|].
  destruct (Z.ltb_spec (1 + len v + len t) (len v + 1)); [lia|].
  destruct (Z.gtb_spec (len v) 253); [lia|].
  change (len v :: v ++ t) with ([len v] ++ v ++ t).
  replace (len v + 1) with (len [len v] + len v) by (change (len [len v]) with 1; lia).
  change 1 with (len [len v]) at 1. rewrite go_slice_mid. reflexivity.
Qed.

Lemma decode_bytes_raw_long_form v t : 0 <= len v < 2 ^ 24 ->
  decode_bytes_raw ([254] ++ le_enc 3 (len v) ++ v ++ t) = Ok (nearest_padded_go (len v + 4), v).
Proof.
  intros H. pose proof (len_nonneg t).
  unfold decode_bytes_raw, long_header_short_bytes_go, long_payload_short_bytes_go, short_payload_short_bytes_go, short_len_invalid_bytes_go, c_firstLongStringByte.
  assert (L : len ([254] ++ le_enc 3 (len v) ++ v ++ t) = 4 + len v + len t)
    by (rewrite !len_app, len_le_enc; change (len [254]) with 1; lia).
  rewrite L. destruct (Z.eqb_spec (4 + len v + len t) 0); [lia|].
  cbn [app]. rewrite go_index_0. cbn [bind]. rewrite Z.eqb_refl.
  destruct (Z.ltb_spec (4 + len v + len t) 4); [lia|].
  set (s := 254 :: le_enc 3 (len v) ++ v ++ t).
  assert (Ls : len s = 4 + len v + len t) by (subst s; exact L).
  rewrite !go_index_ok by lia. cbn [bind].
  assert (E : le_dec [nth (Z.to_nat 1) s 0; nth (Z.to_nat 2) s 0; nth (Z.to_nat 3) s 0] = len v).
  { subst s. change (Z.to_nat 1) with 1%nat. change (Z.to_nat 2) with 2%nat. change (Z.to_nat 3) with 3%nat.
    cbn [le_enc app nth].
    change [ (len v) mod 256; (len v / 256) mod 256; (len v / 256 / 256) mod 256 ] with (le_enc 3 (len v)).
    apply le_dec_enc. change (256 ^ Z.of_nat 3) with (2 ^ 24). lia. }
  rewrite E. destruct (Z.ltb_spec (4 + len v + len t) (len v + 4)); [lia|].
  subst s. change (254 :: le_enc 3 (len v) ++ v ++ t) with (([254] ++ le_enc 3 (len v)) ++ v ++ t).
  assert (L4 : len ([254] ++ le_enc 3 (len v)) = 4) by (rewrite len_app, len_le_enc; reflexivity).
  replace (len v + 4) with (len ([254] ++ le_enc 3 (len v)) + len v) by lia.
  rewrite <- L4 at 1. rewrite go_slice_mid. cbn [bind]. rewrite L4. reflexivity.
Qed.

Lemma decode_bytes_frame p v r : decode_bytes_raw (p ++ r) = Ok (len p, v) -> decode_bytes (p ++ r) = Ok (v, r).
Proof.
  intros H. unfold decode_bytes. rewrite H. cbn [bind]. rewrite len_app. pose proof (len_nonneg r).
  destruct (Z.ltb_spec (len p + len r) (len p)); [lia|].
  rewrite <- len_app, go_slice_suffix. reflexivity.
Qed.

Lemma decode_bytes_rt v r : len v < 2 ^ 24 -> decode_bytes (encode_bytes v ++ r) = Ok (v, r).
Proof.
  intros H. pose proof (len_nonneg v).
  apply decode_bytes_frame. rewrite encode_bytes_len.
  destruct (Z.leb_spec (len v) 253).
  - rewrite encode_bytes_short by lia. rewrite <- !app_assoc.
    apply decode_bytes_raw_short_form; lia.
  - rewrite encode_bytes_long by lia. rewrite <- !app_assoc.
    apply decode_bytes_raw_long_form; lia.
Qed.

(* Complete input/output specification of decode_bytes on byte lists: which of the three
   outcomes happens and, on success, where value and rest sit in the input. It implies
   totality, the error on short input and the alignment of the consumed prefix. *)
Inductive bytes_outcome (b : list Z) : dres (list Z) -> Prop :=
| BO_eof : bytes_outcome b (Err EEOF)
| BO_invalid : 256 <= len b -> nth 0 b 0 = 255 -> bytes_outcome b (Err EInvalidLength)
| BO_ok : forall hdr v pad r,
    b = hdr ++ v ++ pad ++ r ->
    (hdr = [len v] /\ len v <= 253 \/ hdr = [254] ++ le_enc 3 (len v) /\ len v < 2 ^ 24) ->
    len (hdr ++ v ++ pad) mod 4 = 0 -> len pad < 4 ->
    bytes_outcome b (Ok (v, r)).

Lemma decode_bytes_outcome b : bytes_ok b -> bytes_outcome b (decode_bytes b).
Proof.
  intros OK. unfold decode_bytes, decode_bytes_raw, long_header_short_bytes_go, long_payload_short_bytes_go, short_payload_short_bytes_go, short_len_invalid_bytes_go, c_firstLongStringByte, c_maxSmallStringLength.
  pose proof (len_nonneg b) as Hb.
  destruct (Z.eqb_spec (len b) 0) as [|NZ]; [constructor|].
  rewrite go_index_ok by lia. cbn [bind]. change (Z.to_nat 0) with 0%nat.
  assert (B0 : byte_ok (nth 0 b 0)) by (apply nth_bytes_ok; [exact OK|unfold len in *; lia]).
  unfold byte_ok in B0.
  destruct (Z.eqb_spec (nth 0 b 0) 254) as [E0|N0].
  - destruct (Z.ltb_spec (len b) 4); [constructor|].
    rewrite !go_index_ok by lia. cbn [bind].
    set (n := le_dec [nth (Z.to_nat 1) b 0; nth (Z.to_nat 2) b 0; nth (Z.to_nat 3) b 0]).
    assert (R : 0 <= n < 2 ^ 24).
    { subst n. change (2 ^ 24) with (256 ^ Z.of_nat (length [nth (Z.to_nat 1) b 0; nth (Z.to_nat 2) b 0; nth (Z.to_nat 3) b 0])).
      apply le_dec_range. repeat constructor; apply nth_bytes_ok; auto; unfold len in *; lia. }
    destruct (Z.ltb_spec (len b) (n + 4)); [constructor|].
    rewrite go_slice_ok by lia. cbn [bind].
    destruct (nearest_spec (n + 4) ltac:(lia)) as [A1 A2].
    destruct (Z.ltb_spec (len b) (nearest_padded_go (n + 4))); [constructor|].
    rewrite go_slice_ok by lia. cbn [bind].
    replace (n + 4 - 4) with n by lia. change (Z.to_nat 4) with 4%nat.
    set (N := nearest_padded_go (n + 4)) in *.
    rewrite (firstn_all2 (n := Z.to_nat (len b - N))) by (rewrite skipn_length; unfold len in *; lia).
    (* decompose b = firstn 4 b ++ v ++ pad ++ rest *)
    set (v := firstn (Z.to_nat n) (skipn 4 b)).
    assert (Lv : len v = n) by (subst v; unfold len in *; rewrite firstn_length_le; [lia|rewrite skipn_length; lia]).
    eapply (BO_ok b (firstn 4 b) v (firstn (Z.to_nat (N - (n + 4))) (skipn (Z.to_nat (n + 4)) b)) (skipn (Z.to_nat N) b)).
    + rewrite (firstn_skipn_split b 4) at 1. f_equal.
      rewrite (firstn_skipn_split (skipn 4 b) (Z.to_nat n)) at 1. fold v. f_equal.
      rewrite skipn_skipn'. replace (Z.to_nat n + 4)%nat with (Z.to_nat (n + 4)) by lia.
      rewrite (firstn_skipn_split (skipn (Z.to_nat (n + 4)) b) (Z.to_nat (N - (n + 4)))) at 1. f_equal.
      rewrite skipn_skipn'. f_equal. lia.
    + right. split; [|lia]. rewrite Lv.
      destruct b as [|x0 [|x1 [|x2 [|x3 b']]]]; try (unfold len in *; cbn [length] in *; lia).
      change (Z.to_nat 1) with 1%nat in *. change (Z.to_nat 2) with 2%nat in *. change (Z.to_nat 3) with 3%nat in *.
      cbn [firstn nth] in *. subst x0. cbn [app]. f_equal.
      subst n. symmetry. apply (le_enc_dec [x1; x2; x3]).
      inversion OK as [|? ? _ O1]; inversion O1 as [|? ? ? O2]; inversion O2 as [|? ? ? O3]; inversion O3; subst.
      unfold bytes_ok; repeat (apply Forall_cons; [assumption|]); apply Forall_nil.
    + rewrite !len_app, Lv. unfold len in *.
      rewrite !firstn_length_le by (rewrite ?skipn_length; lia). replace (Z.of_nat 4 + (n + Z.of_nat (Z.to_nat (N - (n + 4))))) with N by lia. exact A1.
    + unfold len in *. rewrite firstn_length_le by (rewrite skipn_length; lia). lia.
  - set (n := nth 0 b 0) in *.
    destruct (Z.ltb_spec (len b) (n + 1)); [constructor|].
    destruct (Z.gtb_spec n 253); [apply BO_invalid; [lia|fold n; lia]|].
    rewrite go_slice_ok by lia. cbn [bind].
    destruct (nearest_spec (n + 1) ltac:(lia)) as [A1 A2].
    destruct (Z.ltb_spec (len b) (nearest_padded_go (n + 1))); [constructor|].
    rewrite go_slice_ok by lia. cbn [bind].
    replace (n + 1 - 1) with n by lia. change (Z.to_nat 1) with 1%nat.
    set (N := nearest_padded_go (n + 1)) in *.
    rewrite (firstn_all2 (n := Z.to_nat (len b - N))) by (rewrite skipn_length; unfold len in *; lia).
    set (v := firstn (Z.to_nat n) (skipn 1 b)).
    assert (Lv : len v = n) by (subst v; unfold len in *; rewrite firstn_length_le; [lia|rewrite skipn_length; lia]).
    eapply (BO_ok b (firstn 1 b) v (firstn (Z.to_nat (N - (n + 1))) (skipn (Z.to_nat (n + 1)) b)) (skipn (Z.to_nat N) b)).
    + rewrite (firstn_skipn_split b 1) at 1. f_equal.
      rewrite (firstn_skipn_split (skipn 1 b) (Z.to_nat n)) at 1. fold v. f_equal.
      rewrite skipn_skipn'. replace (Z.to_nat n + 1)%nat with (Z.to_nat (n + 1)) by lia.
      rewrite (firstn_skipn_split (skipn (Z.to_nat (n + 1)) b) (Z.to_nat (N - (n + 1)))) at 1. f_equal.
      rewrite skipn_skipn'. f_equal. lia.
    + left. split; [|lia]. rewrite Lv. destruct b; [unfold len in *; cbn [length] in *; lia|reflexivity].
    + rewrite !len_app, Lv. unfold len in *.
      rewrite !firstn_length_le by (rewrite ?skipn_length; lia). replace (Z.of_nat 1 + (n + Z.of_nat (Z.to_nat (N - (n + 1))))) with N by lia. exact A1.
    + unfold len in *. rewrite firstn_length_le by (rewrite skipn_length; lia). lia.
Qed.

Lemma decode_bytes_no_panic b : bytes_ok b -> decode_bytes b <> Panic.
Proof. intros H. destruct (decode_bytes_outcome b H); discriminate. Qed.

(* a strict prefix of a valid encoding is rejected with EOF *)
Lemma decode_bytes_truncated v k :
  len v < 2 ^ 24 -> (k < length (encode_bytes v))%nat -> decode_bytes (firstn k (encode_bytes v)) = Err EEOF.
Proof.
  intros Hv Hk. pose proof (len_nonneg v) as Hv0.
  assert (LE := encode_bytes_len v).
  set (e := encode_bytes v) in *.
  assert (Lk : len (firstn k e) = Z.of_nat k) by (apply len_firstn; lia).
  unfold decode_bytes, decode_bytes_raw, long_header_short_bytes_go, long_payload_short_bytes_go, short_payload_short_bytes_go, short_len_invalid_bytes_go, c_firstLongStringByte, c_maxSmallStringLength.
  rewrite Lk.
  destruct (Z.eqb_spec (Z.of_nat k) 0); [reflexivity|].
  rewrite go_index_ok by lia. cbn [bind]. change (Z.to_nat 0) with 0%nat.
  destruct (Z.leb_spec (len v) 253) as [S|S].
  - assert (E : e = [len v] ++ v ++ zeros (nearest_padded_go (len v + 1) - (len v + 1))) by (subst e; apply encode_bytes_short; lia).
    destruct (nearest_spec (len v + 1) ltac:(lia)) as [A1 A2].
    assert (N0 : nth 0 (firstn k e) 0 = len v) by (rewrite E; destruct k; [lia|reflexivity]).
    rewrite N0. destruct (Z.eqb_spec (len v) 254); [lia|].
    destruct (Z.ltb_spec (Z.of_nat k) (len v + 1)); [reflexivity|].
    destruct (Z.gtb_spec (len v) 253); [lia|].
    rewrite go_slice_ok by lia. cbn [bind].
    destruct (Z.ltb_spec (Z.of_nat k) (nearest_padded_go (len v + 1))); [reflexivity|].
    unfold len in *; lia.
  - assert (E : e = [254] ++ le_enc 3 (len v) ++ v ++ zeros (nearest_padded_go (len v + 4) - (len v + 4))) by (subst e; apply encode_bytes_long; lia).
    destruct (nearest_spec (len v + 4) ltac:(lia)) as [A1 A2].
    assert (N0 : nth 0 (firstn k e) 0 = 254) by (rewrite E; destruct k; [lia|reflexivity]).
    rewrite N0. cbn [Z.eqb Pos.eqb].
    destruct (Z.ltb_spec (Z.of_nat k) 4); [reflexivity|].
    rewrite !go_index_ok by lia. cbn [bind].
    assert (EL : le_dec [nth (Z.to_nat 1) (firstn k e) 0; nth (Z.to_nat 2) (firstn k e) 0; nth (Z.to_nat 3) (firstn k e) 0] = len v).
    { rewrite E. destruct k as [|[|[|[|k]]]]; try lia.
      change (Z.to_nat 1) with 1%nat. change (Z.to_nat 2) with 2%nat. change (Z.to_nat 3) with 3%nat.
      cbn [app le_enc firstn nth].
      change [ (len v) mod 256; (len v / 256) mod 256; (len v / 256 / 256) mod 256 ] with (le_enc 3 (len v)).
      apply le_dec_enc. change (256 ^ Z.of_nat 3) with (2 ^ 24). lia. }
    rewrite EL.
    destruct (Z.ltb_spec (Z.of_nat k) (len v + 4)); [reflexivity|].
    rewrite go_slice_ok by lia. cbn [bind].
    destruct (Z.ltb_spec (Z.of_nat k) (nearest_padded_go (len v + 4))); [reflexivity|].
    unfold len in *; lia.
Qed.

(* ---------- totality of the fixed-width decoders ---------- *)

Lemma decode_int_no_panic b : decode_int b <> Panic.
Proof. unfold decode_int. destruct (decode_int32_spec b) as [[_ E]|[_ E]]; rewrite E; discriminate. Qed.
Lemma decode_uint32_no_panic b : decode_uint32 b <> Panic.
Proof. destruct (decode_uint32_spec b) as [[_ E]|[_ E]]; rewrite E; discriminate. Qed.
Lemma decode_long_no_panic b : decode_long b <> Panic.
Proof. destruct (decode_long_spec b) as [[_ E]|[_ E]]; rewrite E; discriminate. Qed.
Lemma decode_double_no_panic b : decode_double b <> Panic.
Proof. destruct (decode_double_spec b) as [[_ E]|[_ E]]; rewrite E; discriminate. Qed.
Lemma decode_bool_no_panic b : decode_bool b <> Panic.
Proof. destruct (decode_bool_spec b) as [[_ E]|[[_ [_ E]]|[[_ [_ E]]|[_ [_ [_ E]]]]]]; rewrite E; discriminate. Qed.
Lemma decode_int128_no_panic b : decode_int128 b <> Panic.
Proof. apply take_no_panic; lia. Qed.
Lemma decode_int256_no_panic b : decode_int256 b <> Panic.
Proof. apply take_no_panic; lia. Qed.

Lemma decode_vector_header_spec b :
  (len b < 8 /\ decode_vector_header b = Err EEOF) \/
  (4 <= len b /\ le_dec (firstn 4 b) <> c_TypeVector /\ decode_vector_header b = Err EUnexpectedID) \/
  (8 <= len b /\ le_dec (firstn 4 b) = c_TypeVector /\
   let n := to_signed 32 (le_dec (firstn 4 (skipn 4 b))) in
   (n < 0 /\ decode_vector_header b = Err EInvalidLength \/
    0 <= n /\ decode_vector_header b = Ok (n, skipn 8 b))).
Proof.
  unfold decode_vector_header.
  destruct (consume_id_spec c_TypeVector b) as [[L E]|[[L [N E]]|[L [N E]]]]; rewrite E; cbn [bind].
  - left; split; [lia|reflexivity].
  - right; left; auto.
  - unfold decode_int. destruct (decode_int32_spec (skipn 4 b)) as [[L2 E2]|[L2 E2]]; rewrite E2; cbn [bind].
    + left. rewrite len_skipn in L2. unfold len in *. split; [lia|reflexivity].
    + right; right. rewrite len_skipn in L2. split; [unfold len in *; lia|]. split; [exact N|].
      cbv zeta. destruct (Z.ltb_spec (to_signed 32 (le_dec (firstn 4 (skipn 4 b)))) 0); [left; auto|right].
      split; [lia|]. rewrite skipn_skipn'. reflexivity.
Qed.
Lemma decode_vector_header_no_panic b : decode_vector_header b <> Panic.
Proof.
  destruct (decode_vector_header_spec b) as [[_ E]|[[_ [_ E]]|[_ [_ H]]]]; try (rewrite E; discriminate).
  cbv zeta in H. destruct H as [[_ E]|[_ E]]; rewrite E; discriminate.
Qed.

(* ---------- alignment of the fixed-width encodings ---------- *)
Lemma encode_int_aligned v : len (encode_int v) = 4.            Proof. apply len_le_enc. Qed.
Lemma encode_long_aligned v : len (encode_long v) = 8.          Proof. apply len_le_enc. Qed.
Lemma encode_double_aligned v : len (encode_double v) = 8.      Proof. apply len_le_enc. Qed.
Lemma encode_bool_aligned v : len (encode_bool v) = 4.          Proof. apply len_le_enc. Qed.
Lemma encode_vector_header_aligned n : len (encode_vector_header n) = 8.
Proof. unfold encode_vector_header. rewrite len_app. unfold encode_uint32, encode_int32. rewrite !len_le_enc. reflexivity. Qed.

(* encodings of byte values are byte lists *)
Lemma encode_bytes_ok v : bytes_ok v -> len v < 2 ^ 24 -> bytes_ok (encode_bytes v).
Proof.
  intros OK H. pose proof (len_nonneg v).
  destruct (Z.leb_spec (len v) 253).
  - rewrite encode_bytes_short by lia. rewrite !bytes_ok_app. repeat split; auto using bytes_ok_zeros.
    repeat constructor; lia.
  - rewrite encode_bytes_long by lia. rewrite !bytes_ok_app. repeat split; auto using bytes_ok_zeros, le_enc_ok.
    repeat constructor; lia.
Qed.

(* ---------- sequences of primitives ---------- *)

(* the values each Go type can hold (string/bytes bounded by the property: < 2^24) *)
Definition valid_prim (p : prim) : Prop :=
  match p with
  | PInt v => - 2 ^ 31 <= v < 2 ^ 31
  | PLong v => - 2 ^ 63 <= v < 2 ^ 63
  | PDouble bits => 0 <= bits < 2 ^ 64
  | PBool _ => True
  | PInt128 v => len v = 16
  | PInt256 v => len v = 32
  | PBytes v => len v < 2 ^ 24
  | PVector n => 0 <= n < 2 ^ 31
  end.

Lemma decode_prim_rt p r : valid_prim p -> decode_prim (kind_of p) (encode_prim p ++ r) = Ok (p, r).
Proof.
  destruct p; cbn [valid_prim kind_of encode_prim decode_prim]; intros H; unfold lift.
  - rewrite decode_int_rt by exact H; reflexivity.
  - rewrite decode_long_rt by exact H; reflexivity.
  - rewrite decode_double_rt by exact H; reflexivity.
  - rewrite decode_bool_rt; reflexivity.
  - rewrite decode_int128_rt by exact H; reflexivity.
  - rewrite decode_int256_rt by exact H; reflexivity.
  - rewrite decode_bytes_rt by exact H; reflexivity.
  - rewrite decode_vector_header_rt by exact H; reflexivity.
Qed.

Lemma encode_prim_aligned p : valid_prim p -> len (encode_prim p) mod 4 = 0.
Proof.
  destruct p; cbn [valid_prim encode_prim]; intros H.
  - rewrite encode_int_aligned; reflexivity.
  - rewrite encode_long_aligned; reflexivity.
  - rewrite encode_double_aligned; reflexivity.
  - rewrite encode_bool_aligned; reflexivity.
  - unfold encode_int128; rewrite H; reflexivity.
  - unfold encode_int256; rewrite H; reflexivity.
  - apply encode_bytes_aligned.
  - rewrite encode_vector_header_aligned; reflexivity.
Qed.

Lemma decode_all_rt ps r : Forall valid_prim ps -> decode_all (map kind_of ps) (encode_all ps ++ r) = Ok (ps, r).
Proof.
  induction 1 as [|p ps Hp _ IH]; [reflexivity|].
  cbn [map decode_all encode_all flat_map]. rewrite <- app_assoc, decode_prim_rt by exact Hp. cbn [bind].
  fold (encode_all ps). rewrite IH. reflexivity.
Qed.
Lemma encode_all_aligned ps : Forall valid_prim ps -> len (encode_all ps) mod 4 = 0.
Proof.
  induction 1 as [|p ps Hp _ IH]; [reflexivity|].
  cbn [encode_all flat_map]. fold (encode_all ps). rewrite len_app.
  rewrite Z.add_mod, (encode_prim_aligned p Hp), IH by lia. reflexivity.
Qed.

(* Every successful decode consumes a 4-aligned, non-empty prefix of its input. *)
Lemma skipn_split_len (b : list Z) (k : nat) : Z.of_nat k <= len b ->
  b = firstn k b ++ skipn k b /\ len (firstn k b) = Z.of_nat k.
Proof. intros H; split; [apply firstn_skipn_split|apply len_firstn; unfold len in H; lia]. Qed.

Lemma decode_prim_consumes k b p r : bytes_ok b -> decode_prim k b = Ok (p, r) ->
  exists pre, b = pre ++ r /\ len pre mod 4 = 0 /\ 4 <= len pre.
Proof.
  intros OK. destruct k; cbn [decode_prim]; unfold lift.
  - unfold decode_int. destruct (decode_int32_spec b) as [[_ E]|[L E]]; rewrite E; cbn [bind]; [discriminate|].
    intros H; inversion H; subst. destruct (skipn_split_len b 4 L) as [S Lp]. exists (firstn 4 b). rewrite Lp. repeat split; [exact S|lia].
  - destruct (decode_long_spec b) as [[_ E]|[L E]]; rewrite E; cbn [bind]; [discriminate|].
    intros H; inversion H; subst. destruct (skipn_split_len b 8 L) as [S Lp]. exists (firstn 8 b). rewrite Lp. repeat split; [exact S|lia].
  - destruct (decode_double_spec b) as [[_ E]|[L E]]; rewrite E; cbn [bind]; [discriminate|].
    intros H; inversion H; subst. destruct (skipn_split_len b 8 L) as [S Lp]. exists (firstn 8 b). rewrite Lp. repeat split; [exact S|lia].
  - destruct (decode_bool_spec b) as [[_ E]|[[L [_ E]]|[[L [_ E]]|[_ [_ [_ E]]]]]]; rewrite E; cbn [bind]; try discriminate;
      intros H; inversion H; subst; destruct (skipn_split_len b 4 L) as [S Lp]; exists (firstn 4 b); rewrite Lp; repeat split; try exact S; lia.
  - unfold decode_int128. destruct (take 16 b) as [[v r']| |] eqn:E; cbn [bind]; try discriminate.
    intros H; inversion H; subst. destruct (take_ok_inv 16 b v r ltac:(lia) E) as [S Lp]. exists v. rewrite Lp. repeat split; [exact S|lia].
  - unfold decode_int256. destruct (take 32 b) as [[v r']| |] eqn:E; cbn [bind]; try discriminate.
    intros H; inversion H; subst. destruct (take_ok_inv 32 b v r ltac:(lia) E) as [S Lp]. exists v. rewrite Lp. repeat split; [exact S|lia].
  - pose proof (decode_bytes_outcome b OK) as O. destruct (decode_bytes b) as [[v r']| |] eqn:E; cbn [bind]; try discriminate.
    intros H; inversion H; subst. inversion O as [| |hdr v' pad r'' S Hh A P]; subst.
    exists (hdr ++ v ++ pad). rewrite <- !app_assoc. repeat split; auto.
    pose proof (len_nonneg (hdr ++ v ++ pad)).
    assert (1 <= len (hdr ++ v ++ pad)).
    { rewrite len_app. pose proof (len_nonneg (v ++ pad)). destruct Hh as [[-> _]|[-> _]]; [change (len [len v]) with 1; lia|].
      rewrite len_app, len_le_enc. change (len [254]) with 1. lia. }
    pose proof (Z.div_mod (len (hdr ++ v ++ pad)) 4 ltac:(lia)). lia.
  - destruct (decode_vector_header_spec b) as [[_ E]|[[_ [_ E]]|[L [_ Hn]]]]; try (rewrite E; cbn [bind]; discriminate).
    cbv zeta in Hn. destruct Hn as [[_ E]|[_ E]]; rewrite E; cbn [bind]; [discriminate|].
    intros H; inversion H; subst. destruct (skipn_split_len b 8 L) as [S Lp]. exists (firstn 8 b). rewrite Lp. repeat split; [exact S|lia].
Qed.

Lemma decode_prim_no_panic k b : bytes_ok b -> decode_prim k b <> Panic.
Proof.
  intros OK. destruct k; cbn [decode_prim]; unfold lift.
  - pose proof (decode_int_no_panic b). destruct (decode_int b) as [[? ?]| |]; cbn [bind]; congruence.
  - pose proof (decode_long_no_panic b). destruct (decode_long b) as [[? ?]| |]; cbn [bind]; congruence.
  - pose proof (decode_double_no_panic b). destruct (decode_double b) as [[? ?]| |]; cbn [bind]; congruence.
  - pose proof (decode_bool_no_panic b). destruct (decode_bool b) as [[? ?]| |]; cbn [bind]; congruence.
  - pose proof (decode_int128_no_panic b). destruct (decode_int128 b) as [[? ?]| |]; cbn [bind]; congruence.
  - pose proof (decode_int256_no_panic b). destruct (decode_int256 b) as [[? ?]| |]; cbn [bind]; congruence.
  - pose proof (decode_bytes_no_panic b OK). destruct (decode_bytes b) as [[? ?]| |]; cbn [bind]; congruence.
  - pose proof (decode_vector_header_no_panic b). destruct (decode_vector_header b) as [[? ?]| |]; cbn [bind]; congruence.
Qed.

Lemma decode_all_no_panic ks : forall b, bytes_ok b -> decode_all ks b <> Panic.
Proof.
  induction ks as [|k ks IH]; intros b OK; cbn [decode_all]; [discriminate|].
  pose proof (decode_prim_no_panic k b OK) as NP.
  destruct (decode_prim k b) as [[p r]| |] eqn:E; cbn [bind]; try congruence.
  destruct (decode_prim_consumes k b p r OK E) as [pre [S _]].
  assert (OKr : bytes_ok r) by (rewrite S in OK; apply bytes_ok_app in OK; tauto).
  specialize (IH r OKr). destruct (decode_all ks r) as [[ps r']| |]; cbn [bind]; congruence.
Qed.

(* short input: every decoder reports EOF below its minimal size, and on every strict
   prefix of a valid encoding *)
Lemma firstn_app_le {A} k (a b : list A) : (k <= length a)%nat -> firstn k (a ++ b) = firstn k a.
Proof. intros H. rewrite firstn_app. replace (k - length a)%nat with 0%nat by lia. cbn [firstn]. apply app_nil_r. Qed.

Lemma decode_prim_truncated p k : valid_prim p -> (k < length (encode_prim p))%nat ->
  decode_prim (kind_of p) (firstn k (encode_prim p)) = Err EEOF.
Proof.
  intros V Hk.
  assert (Lk : len (firstn k (encode_prim p)) = Z.of_nat k) by (apply len_firstn; lia).
  destruct p; cbn [valid_prim kind_of encode_prim decode_prim] in *; unfold lift.
  - pose proof (encode_int_aligned v) as A. unfold len in A, Lk. unfold decode_int.
    destruct (decode_int32_spec (firstn k (encode_int v))) as [[_ E]|[L _]]; [rewrite E; reflexivity|unfold len in L; lia].
  - pose proof (encode_long_aligned v) as A. unfold len in A, Lk.
    destruct (decode_long_spec (firstn k (encode_long v))) as [[_ E]|[L _]]; [rewrite E; reflexivity|unfold len in L; lia].
  - pose proof (encode_double_aligned bits) as A. unfold len in A, Lk.
    destruct (decode_double_spec (firstn k (encode_double bits))) as [[_ E]|[L _]]; [rewrite E; reflexivity|unfold len in L; lia].
  - pose proof (encode_bool_aligned v) as A. unfold len in A, Lk.
    destruct (decode_bool_spec (firstn k (encode_bool v))) as [[_ E]|[[L _]|[[L _]|[L _]]]]; [rewrite E; reflexivity|unfold len in L; lia..].
  - unfold decode_int128, encode_int128 in *. rewrite take_short; [reflexivity|unfold len in *; lia].
  - unfold decode_int256, encode_int256 in *. rewrite take_short; [reflexivity|unfold len in *; lia].
  - rewrite decode_bytes_truncated by assumption. reflexivity.
  - pose proof (encode_vector_header_aligned n) as A. unfold len in A, Lk.
    destruct (decode_vector_header_spec (firstn k (encode_vector_header n))) as [[_ E]|[[L [N _]]|[L _]]]; [rewrite E; reflexivity| |unfold len in L; lia].
    exfalso. apply N. unfold encode_vector_header, encode_uint32.
    assert (4 <= k)%nat by (unfold len in L; lia).
    rewrite firstn_firstn. replace (Nat.min 4 k) with 4%nat by lia.
    rewrite firstn_app_le by (rewrite le_enc_length; lia).
    rewrite <- (le_enc_length 4 c_TypeVector) at 1. rewrite firstn_all.
    apply le_dec_enc. vm_compute; split; [discriminate|reflexivity].
Qed.

(* malformed input *)
Lemma decode_bytes_invalid b : 256 <= len b -> nth 0 b 0 = 255 -> decode_bytes b = Err EInvalidLength.
Proof.
  intros L N. unfold decode_bytes, decode_bytes_raw, long_header_short_bytes_go, long_payload_short_bytes_go, short_payload_short_bytes_go, short_len_invalid_bytes_go, c_firstLongStringByte, c_maxSmallStringLength.
  destruct (Z.eqb_spec (len b) 0); [lia|]. rewrite go_index_ok by lia. cbn [bind].
  change (Z.to_nat 0) with 0%nat. rewrite N. cbn [Z.eqb Pos.eqb].
  destruct (Z.ltb_spec (len b) (255 + 1)); [lia|]. reflexivity.
Qed.
Lemma decode_bool_bad_id b : 4 <= len b -> le_dec (firstn 4 b) <> c_TypeTrue -> le_dec (firstn 4 b) <> c_TypeFalse ->
  decode_bool b = Err EUnexpectedID.
Proof.
  intros L N1 N2. destruct (decode_bool_spec b) as [[L' _]|[[_ [E _]]|[[_ [E _]]|[_ [_ [_ E]]]]]]; try lia; try contradiction; exact E.
Qed.
Lemma decode_vector_header_negative n r : - 2 ^ 31 <= n < 0 ->
  decode_vector_header (encode_vector_header n ++ r) = Err EInvalidLength.
Proof.
  intros H. unfold decode_vector_header, encode_vector_header. rewrite <- app_assoc.
  rewrite consume_id_app by (vm_compute; split; [discriminate|reflexivity]). cbn [bind].
  unfold decode_int. rewrite decode_int32_rt by lia. cbn [bind].
  destruct (Z.ltb_spec n 0); [reflexivity|lia].
Qed.
