(* Proofs about Model/MsgId.v: message id generation (C08) and the id -> time decoding (C07). *)
From Coq Require Import ZArith List Bool Lia Sorted.
From TD Require Import Gen.MsgIdGen Model.MsgId.
Import ListNotations.
Open Scope Z_scope.

(* ---------- bit arithmetic used by the generated code ---------- *)
Lemma land_m4 x : Z.land x (-4) = 4 * (x / 4).
Proof.
  change (-4) with (Z.lnot (Z.ones 2)).
  rewrite <- Z.ldiff_land, Z.ldiff_ones_r by lia.
  rewrite Z.shiftl_mul_pow2, Z.shiftr_div_pow2 by lia. change (2^2) with 4. lia.
Qed.

Lemma lor_shift q f : 0 <= f < 2^32 -> Z.lor (Z.shiftl q 32) f = q * 2^32 + f.
Proof.
  intros Hf. rewrite Z.shiftl_mul_pow2 by lia.
  assert (H0: Z.land (q * 2^32) f = 0).
  { rewrite <- (Z.mod_small f (2^32)) by lia. rewrite <- Z.land_ones by lia.
    rewrite (Z.land_comm f), Z.land_assoc, Z.land_ones by lia. rewrite Z.mod_mul by lia. apply Z.land_0_l. }
  rewrite <- Z.lxor_lor by exact H0. symmetry. apply Z.add_nocarry_lxor. exact H0.
Qed.

(* closed form of newMessageID(n, yieldClient) for n >= 0 *)
Definition idn (n : Z) : Z := (n / 1000000000) * 4294967296 + 4 * ((n mod 1000000000) / 4).
Definition round4 (n : Z) : Z := 4 * (n / 4).
Arguments idn : simpl never.
Arguments round4 : simpl never.
Arguments id_time_lib : simpl never.
Arguments id_time_enc : simpl never.
Arguments gen_new : simpl never.

Lemma new_id_closed n : 0 <= n -> new_message_id_go n 0 = idn n.
Proof.
  intros Hn. unfold new_message_id_go, idn, c_messageIDModulo.
  change (- (4)) with (-4).
  rewrite Z.quot_div_nonneg, Z.rem_mod_nonneg by lia.
  rewrite land_m4, Z.add_0_r. rewrite lor_shift. reflexivity.
  change (2^32) with 4294967296. Z.to_euclidean_division_equations. lia.
Qed.

Lemma gen_new_closed st c :
  0 <= st -> 0 <= c ->
  gen_new st c = (let st' := if round4 c >? st then round4 c else st + 10 in (idn st', st')).
Proof.
  intros Hs Hc. unfold gen_new, gen_new_go, new_message_id_nano_go, Z_ident.
  unfold c_messageIDModulo, c_MessageFromClient, c_MessageFromServer, c_MessageServerResponse, c_yieldClient.
  change (Z.lnot (4 - 1)) with (-4). rewrite land_m4. fold (round4 c).
  change (1 =? 1) with true. cbv iota.
  cbv zeta.
  assert (H0 : 0 <= round4 c) by (unfold round4; Z.to_euclidean_division_equations; lia).
  destruct (round4 c >? st) eqn:E; rewrite new_id_closed; try reflexivity; lia.
Qed.

(* ---------- the id <-> time relation ---------- *)
Lemma idn_time n : 0 <= n -> id_time_enc (idn n) = round4 n.
Proof.
  intros Hn. unfold id_time_enc, idn, round4.
  Z.to_euclidean_division_equations. lia.
Qed.

Lemma idn_mod4 n : 0 <= n -> (idn n) mod 4 = 0.
Proof. intros Hn. unfold idn. Z.to_euclidean_division_equations. lia. Qed.

Lemma idn_mono a b : 0 <= a -> 0 <= b -> round4 a < round4 b -> idn a < idn b.
Proof.
  intros Ha Hb. unfold idn, round4. Z.to_euclidean_division_equations. lia.
Qed.

Lemma idn_nonneg n : 0 <= n -> 0 <= idn n.
Proof. intros Hn. unfold idn. Z.to_euclidean_division_equations. lia. Qed.

(* ---------- C08: per-step facts ---------- *)
Lemma gen_step st c :
  0 <= st -> 0 <= c ->
  let '(id, st') := gen_new st c in
  0 <= st' /\ st < st' /\ round4 st < round4 st' /\ id = idn st' /\ step_ok (round4 st) c id.
Proof.
  intros Hs Hc. rewrite gen_new_closed by assumption. cbv zeta.
  set (st' := if round4 c >? st then round4 c else st + 10).
  assert (H : 0 <= st' /\ st < st' /\ round4 st < round4 st' /\ c <= round4 st' + 3 /\
              round4 st' <= Z.max c (round4 st + 13)).
  { unfold st'. destruct (round4 c >? st) eqn:E.
    - apply Z.gtb_lt in E. unfold round4 in *. Z.to_euclidean_division_equations. lia.
    - assert (round4 c <= st) by (destruct (Z.gtb_spec (round4 c) st); [discriminate | lia]).
      unfold round4 in *. Z.to_euclidean_division_equations. lia. }
  destruct H as (H1 & H2 & H3 & H4 & H5).
  repeat split; try assumption.
  - apply idn_mod4; assumption.
  - rewrite idn_time by assumption. assumption.
  - rewrite idn_time by assumption. assumption.
  - rewrite idn_time by assumption. assumption.
Qed.

Lemma gen_run_cons st c t :
  gen_run st (c :: t) = fst (gen_new st c) :: gen_run (snd (gen_new st c)) t.
Proof. simpl. destruct (gen_new st c); reflexivity. Qed.

Lemma gen_run_good clocks : forall st,
  0 <= st -> Forall (fun c => 0 <= c) clocks ->
  good_from (round4 st) (combine clocks (gen_run st clocks)) /\
  StronglySorted Z.lt (gen_run st clocks) /\
  Forall (fun id => idn st < id) (gen_run st clocks) /\
  length (gen_run st clocks) = length clocks.
Proof.
  induction clocks as [|c t IH]; intros st Hs Hc.
  - simpl. repeat split; constructor.
  - inversion Hc as [|? ? Hc0 Hct]; subst. rewrite gen_run_cons.
    pose proof (gen_step st c Hs Hc0) as G. destruct (gen_new st c) as [id st'].
    destruct G as (G1 & G2 & G3 & G4 & G5). subst id. cbn [fst snd].
    destruct (IH st' G1 Hct) as (I1 & I2 & I3 & I4). cbn [combine good_from length].
    rewrite idn_time by assumption.
    split; [split; [exact G5 | exact I1] | split; [ | split ]].
    + constructor; assumption.
    + constructor.
      * apply idn_mono; assumption.
      * eapply Forall_impl; [|exact I3]. simpl. intros a Ha.
        pose proof (idn_mono st st' Hs G1 G3). lia.
    + f_equal. exact I4.
Qed.

Lemma type_of_mod4 id : id mod 4 = 0 -> message_type_go id = c_MessageFromClient.
Proof.
  intros M. unfold message_type_go, c_messageIDModulo, c_yieldClient.
  assert (Hrem : Z.rem id 4 = 0) by (apply Z.rem_mod_eq_0; [lia|exact M]).
  rewrite Hrem. reflexivity.
Qed.

Lemma gen_run_types clocks : forall st,
  0 <= st -> Forall (fun c => 0 <= c) clocks ->
  Forall (fun id => id mod 4 = 0 /\ message_type_go id = c_MessageFromClient) (gen_run st clocks).
Proof.
  induction clocks as [|c t IH]; intros st Hs Hc.
  - simpl. constructor.
  - inversion Hc as [|? ? Hc0 Hct]; subst. rewrite gen_run_cons.
    pose proof (gen_step st c Hs Hc0) as G. destruct (gen_new st c) as [id st'].
    destruct G as (G1 & G2 & G3 & G4 & (M & _)). cbn [fst snd].
    constructor; [split; [exact M | apply type_of_mod4; exact M] | apply IH; assumption].
Qed.

(* C08_strict, full strength: for every sequence of non-negative clock readings the ids are
   strictly increasing (hence unique), client-typed, and each encodes a time strictly after
   the previous id's time, at most 3 ns behind its clock reading and at most
   max(clock, previous time + 13 ns). *)
Theorem gen_strict : forall clocks,
  Forall (fun c => 0 <= c) clocks ->
  let ids := gen_run gen_init clocks in
  length ids = length clocks /\
  StronglySorted Z.lt ids /\
  Forall (fun id => id mod 4 = 0 /\ message_type_go id = c_MessageFromClient) ids /\
  good_from 0 (combine clocks ids).
Proof.
  intros clocks Hc. cbv zeta. unfold gen_init.
  destruct (gen_run_good clocks 0 ltac:(lia) Hc) as (G1 & G2 & G3 & G4).
  change (round4 0) with 0 in G1.
  repeat split; try assumption.
  apply gen_run_types; [lia | assumption].
Qed.

(* the defect repaired by the fix commit: sub-4ns clock steps *)
Lemma sub4ns_distinct : gen_run gen_init [1000; 1001] = [1000; 1008].
Proof. vm_compute. reflexivity. Qed.

(* ---------- C08: sequence numbers ---------- *)
Lemma next_seq_closed sent b :
  next_seq sent b = (2 * sent + (if b then 1 else 0), sent + (if b then 1 else 0)).
Proof. unfold next_seq, next_msg_seq_go. destruct b; f_equal; lia. Qed.

Lemma seq_run_spec kinds : forall sent i,
  (i < length kinds)%nat ->
  nth i (seq_run sent kinds) 0 =
    2 * (sent + count_true (firstn i kinds)) + (if nth i kinds false then 1 else 0).
Proof.
  induction kinds as [|k t IH]; intros sent i Hi; cbn [length] in Hi; [lia|].
  cbn [seq_run]. rewrite next_seq_closed. destruct i as [|i]; cbn [nth firstn count_true].
  - lia.
  - rewrite IH by lia. destruct k; lia.
Qed.

Lemma count_true_bounds l : 0 <= count_true l <= Z.of_nat (length l).
Proof. induction l as [|b t IH]; simpl; [lia|]. destruct b; lia. Qed.

Lemma count_true_firstn_le i l : count_true (firstn i l) <= count_true l.
Proof.
  revert i; induction l as [|b t IH]; intros [|i]; simpl; try lia.
  - pose proof (count_true_bounds t). destruct b; lia.
  - specialize (IH i). destruct b; lia.
Qed.

Theorem seq_spec : forall kinds i,
  (i < length kinds)%nat ->
  count_true kinds < 2 ^ 30 ->
  let s := nth i (seq_run 0 kinds) 0 in
  s = 2 * count_true (firstn i kinds) + (if nth i kinds false then 1 else 0) /\
  0 <= s < 2 ^ 31.
Proof.
  intros kinds i Hi Hb. cbv zeta. rewrite seq_run_spec by assumption. split; [lia|].
  pose proof (count_true_firstn_le i kinds). pose proof (count_true_bounds (firstn i kinds)).
  change (2^30) with 1073741824 in Hb. change (2^31) with 2147483648.
  destruct (nth i kinds false); lia.
Qed.

Lemma seq_run_length kinds : forall sent, length (seq_run sent kinds) = length kinds.
Proof. induction kinds as [|k t IH]; intros sent; cbn [seq_run length]; [reflexivity|]. rewrite next_seq_closed. cbn [length]. f_equal. apply IH. Qed.

(* ---------- the library's decoding vs. the specification's reading ---------- *)
(* MessageID.Time() is the specification's reading id / 2^32 s rounded down to a nanosecond. *)
Lemma id_time_lib_is_spec id :
  id_time_lib id * 4294967296 <= id_time_spec_scaled id < (id_time_lib id + 1) * 4294967296.
Proof.
  unfold id_time_lib, id_time_sec_go, id_time_nsec_go, id_time_spec_scaled.
  rewrite !Z.shiftr_div_pow2 by lia. change (2^32) with 4294967296.
  Z.to_euclidean_division_equations. lia.
Qed.

Lemma id_time_lib_ge_sec id : (id / 4294967296) * 1000000000 <= id_time_lib id < (id / 4294967296 + 1) * 1000000000.
Proof.
  unfold id_time_lib, id_time_sec_go, id_time_nsec_go.
  rewrite !Z.shiftr_div_pow2 by lia. change (2^32) with 4294967296.
  Z.to_euclidean_division_equations. lia.
Qed.

(* a client id reads, under the specification's reading, at most 0.77 s before the instant
   its low word encodes in nanoseconds (the encoder writes nanoseconds, not 2^-32 s units) *)
Lemma enc_vs_lib n : 0 <= n -> 0 <= id_time_enc (idn n) - id_time_lib (idn n) < 770000000.
Proof.
  intros Hn. unfold id_time_enc, id_time_lib, id_time_sec_go, id_time_nsec_go, idn.
  rewrite !Z.shiftr_div_pow2 by lia. change (2^32) with 4294967296.
  Z.to_euclidean_division_equations. lia.
Qed.

Lemma gen_run_spec_reading clocks : forall st,
  0 <= st -> Forall (fun c => 0 <= c) clocks ->
  Forall (fun id => 0 <= id_time_enc id - id_time_lib id < 770000000) (gen_run st clocks).
Proof.
  induction clocks as [|c t IH]; intros st Hs Hc.
  - simpl. constructor.
  - inversion Hc as [|? ? Hc0 Hct]; subst. rewrite gen_run_cons.
    pose proof (gen_step st c Hs Hc0) as G. destruct (gen_new st c) as [id st'].
    destruct G as (G1 & G2 & G3 & G4 & _). cbn [fst snd]. subst id.
    constructor; [apply enc_vs_lib; exact G1 | apply IH; assumption].
Qed.

Theorem gen_spec_reading : forall clocks,
  Forall (fun c => 0 <= c) clocks ->
  Forall (fun id => 0 <= id_time_enc id - id_time_lib id < 770000000) (gen_run gen_init clocks).
Proof. intros. apply gen_run_spec_reading; [unfold gen_init; apply Z.le_refl | assumption]. Qed.

(* remark: the display decoding MessageID.Time() (int32 nanoseconds) is within -2.65 .. +1.65 s
   of the specification's reading, for every id; for client ids (low word < 2^31) it is the
   encoder's nanosecond reading exactly *)
Lemma id_time_display_vs_spec id :
  let d := id_time_display id * 4294967296 - id_time_spec_scaled id in
  - 2650000000 * 4294967296 < d < 1650000000 * 4294967296.
Proof.
  cbv zeta. unfold id_time_display, msgid_time_sec_go, msgid_time_nsec_go, wrap_s32_MsgIdGen, id_time_spec_scaled.
  rewrite Z.shiftr_div_pow2 by lia. change (2^32) with 4294967296.
  Z.to_euclidean_division_equations. lia.
Qed.
