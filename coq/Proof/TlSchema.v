(* Proofs about the schema interpreter Model/TlSchema.v, generic in the schema.
   Part A  totality: no decoder panics, every decoder returns a suffix (lengths tracked).
   Part B  fuel: for a well-formed schema  4 * fuel > len b  excludes EOutOfFuel
           (recursion depth <= len/4 + 1); the vector loop bound is never reached.
   Part C  results other than EOutOfFuel do not depend on the fuel.
   Part D  round trip on canonical well-typed values.
   Part E  preallocation bound. *)
From Coq Require Import ZArith List Bool Lia.
From TD Require Import Lib.Bytes Lib.GoSem Lib.GoSlice Gen.TlConsts Gen.TlSchemaConsts Model.TlPrim Proof.TlPrim Model.TlSchema.
Import ListNotations.
Open Scope Z_scope.

(* ------------------------------------------------------------------ *)
(* Part A: totality                                                   *)
(* ------------------------------------------------------------------ *)

(* d never panics on byte strings; a successful d leaves well-formed bytes, at least k shorter *)
Definition dec_ok {A} (k : Z) (d : list Z -> sres A) : Prop :=
  forall b, bytes_ok b ->
    d b <> Panic /\ (forall v r, d b = Ok (v, r) -> bytes_ok r /\ len r + k <= len b).

Lemma dec_ok_weaken {A} k k' (d : list Z -> sres A) : k' <= k -> dec_ok k d -> dec_ok k' d.
Proof.
  intros Hk H b OK. destruct (H b OK) as [NP HS]. split; [exact NP|].
  intros v r E. destruct (HS v r E). split; [assumption|lia].
Qed.

Lemma split_ok b pre r : bytes_ok b -> b = pre ++ r -> bytes_ok r /\ len r + len pre = len b.
Proof.
  intros OK ->. apply bytes_ok_app in OK. destruct OK. split; [assumption|]. rewrite len_app. lia.
Qed.

Lemma tlprim_good k b : bytes_ok b ->
  TlPrim.decode_prim k b <> Panic /\
  (forall p r, TlPrim.decode_prim k b = Ok (p, r) -> bytes_ok r /\ len r + 4 <= len b).
Proof.
  intros OK. split; [apply decode_prim_no_panic; exact OK|].
  intros p r E. destruct (decode_prim_consumes k b p r OK E) as [pre [S [_ L]]].
  destruct (split_ok b pre r OK S). split; [assumption|lia].
Qed.

Lemma lift_p_good {A} (d : list Z -> dres A) (f : A -> value) :
  (forall b, bytes_ok b -> d b <> Panic /\ (forall v r, d b = Ok (v, r) -> bytes_ok r /\ len r + 4 <= len b)) ->
  dec_ok 4 (fun b => lift_p (d b) f).
Proof.
  intros H b OK. destruct (H b OK) as [NP HS]. unfold lift_p.
  destruct (d b) as [[a rest]|e|]; [|split; [discriminate|intros; discriminate]|congruence].
  split; [discriminate|]. intros v r E. inversion E; subst. apply (HS a r eq_refl).
Qed.

Ltac via_tlprim K C :=
  let b := fresh "b" in let OK := fresh "OK" in let NP := fresh "NP" in let HS := fresh "HS" in
  let E := fresh "E" in let v := fresh "v" in let r := fresh "r" in
  intros b OK; destruct (tlprim_good K b OK) as [NP HS]; cbn [TlPrim.decode_prim] in NP, HS; unfold lift in NP, HS;
  split; [intro E; apply NP; rewrite E; reflexivity|];
  intros v r E; apply (HS (C v) r); rewrite E; reflexivity.

Lemma decode_int_good b : bytes_ok b -> decode_int b <> Panic /\ (forall v r, decode_int b = Ok (v, r) -> bytes_ok r /\ len r + 4 <= len b).
Proof. revert b. via_tlprim KInt PInt. Qed.
Lemma decode_long_good b : bytes_ok b -> decode_long b <> Panic /\ (forall v r, decode_long b = Ok (v, r) -> bytes_ok r /\ len r + 4 <= len b).
Proof. revert b. via_tlprim KLong PLong. Qed.
Lemma decode_double_good b : bytes_ok b -> decode_double b <> Panic /\ (forall v r, decode_double b = Ok (v, r) -> bytes_ok r /\ len r + 4 <= len b).
Proof. revert b. via_tlprim KDouble PDouble. Qed.
Lemma decode_bool_good b : bytes_ok b -> decode_bool b <> Panic /\ (forall v r, decode_bool b = Ok (v, r) -> bytes_ok r /\ len r + 4 <= len b).
Proof. revert b. via_tlprim KBool PBool. Qed.
Lemma decode_int128_good b : bytes_ok b -> decode_int128 b <> Panic /\ (forall v r, decode_int128 b = Ok (v, r) -> bytes_ok r /\ len r + 4 <= len b).
Proof. revert b. via_tlprim KInt128 PInt128. Qed.
Lemma decode_int256_good b : bytes_ok b -> decode_int256 b <> Panic /\ (forall v r, decode_int256 b = Ok (v, r) -> bytes_ok r /\ len r + 4 <= len b).
Proof. revert b. via_tlprim KInt256 PInt256. Qed.
Lemma decode_bytes_good b : bytes_ok b -> decode_bytes b <> Panic /\ (forall v r, decode_bytes b = Ok (v, r) -> bytes_ok r /\ len r + 4 <= len b).
Proof. revert b. via_tlprim KBytes PBytes. Qed.
Lemma decode_vector_header_good b : bytes_ok b -> decode_vector_header b <> Panic /\ (forall v r, decode_vector_header b = Ok (v, r) -> bytes_ok r /\ len r + 4 <= len b).
Proof. revert b. via_tlprim KVector PVector. Qed.

Lemma skip4_ok b : bytes_ok b -> 4 <= len b -> bytes_ok (skipn 4 b) /\ len (skipn 4 b) + 4 <= len b.
Proof.
  intros OK L. split; [apply bytes_ok_skipn; exact OK|]. rewrite len_skipn. unfold len in *. lia.
Qed.
Lemma decode_uint32_good b : bytes_ok b -> decode_uint32 b <> Panic /\ (forall v r, decode_uint32 b = Ok (v, r) -> bytes_ok r /\ len r + 4 <= len b).
Proof.
  intros OK. split; [apply decode_uint32_no_panic|]. intros v r E.
  destruct (decode_uint32_spec b) as [[_ E']|[L E']]; rewrite E' in E; [discriminate|].
  inversion E; subst. apply skip4_ok; assumption.
Qed.
Lemma consume_id_good id b : bytes_ok b ->
  consume_id id b <> Panic /\ (forall r, consume_id id b = Ok r -> bytes_ok r /\ len r + 4 <= len b).
Proof.
  intros OK. destruct (consume_id_spec id b) as [[_ E]|[[_ [_ E]]|[L [_ E]]]]; rewrite E; (split; [discriminate|]); intros r H; try discriminate.
  inversion H; subst. apply skip4_ok; assumption.
Qed.

Lemma dec_prim_ok p : dec_ok 4 (dec_prim p).
Proof.
  destruct p; unfold dec_prim, decode_string; apply lift_p_good; intros b OK.
  - apply decode_int_good; exact OK.
  - apply decode_long_good; exact OK.
  - apply decode_double_good; exact OK.
  - apply decode_bytes_good; exact OK.
  - apply decode_bytes_good; exact OK.
  - apply decode_int128_good; exact OK.
  - apply decode_int256_good; exact OK.
  - apply decode_bool_good; exact OK.
Qed.

Ltac err_now := split; [discriminate|intros; discriminate].
Ltac err_case := let b := fresh "b" in let OK := fresh "OK" in intros b OK; cbv beta; split; [discriminate|intros; discriminate].

Section LevelA.
  Variable s : schema.
  Variable dec_rec : ctor -> list Z -> sres value.
  Hypothesis Hrec : forall c, dec_ok 0 (dec_rec c).

  Lemma dec_boxed_ok c : dec_ok 4 (dec_boxed dec_rec c).
  Proof.
    intros b OK. unfold dec_boxed. destruct (consume_id_good (c_id c) b OK) as [NP HS].
    destruct (consume_id (c_id c) b) as [r0|e|]; [|split; [discriminate|intros; discriminate]|congruence].
    destruct (HS r0 eq_refl) as [OK0 L0]. destruct (Hrec c r0 OK0) as [NP' HS'].
    split; [exact NP'|]. intros v r E. destruct (HS' v r E). split; [assumption|lia].
  Qed.
  Lemma dec_class_ok cls : dec_ok 4 (dec_class s dec_rec cls).
  Proof.
    intros b OK. unfold dec_class.
    destruct (peek_id_spec b) as [[_ E]|[_ E]]; rewrite E; [split; [discriminate|intros; discriminate]|].
    destruct (class_find s cls (le_dec (firstn 4 b))) as [c|]; [apply dec_boxed_ok; exact OK|split; [discriminate|intros; discriminate]].
  Qed.
  Lemma dec_base_ok0 bare b0 : dec_ok 0 (dec_base s dec_rec bare b0).
  Proof.
    intros b OK. destruct b0 as [p|ci|cls|]; cbn [dec_base].
    - exact (dec_ok_weaken 4 0 _ ltac:(lia) (dec_prim_ok p) b OK).
    - destruct (ctor_at s ci) as [c|]; [|err_now].
      destruct bare; [exact (Hrec c b OK)|exact (dec_ok_weaken 4 0 _ ltac:(lia) (dec_boxed_ok c) b OK)].
    - exact (dec_ok_weaken 4 0 _ ltac:(lia) (dec_class_ok cls) b OK).
    - err_now.
  Qed.
  Lemma dec_base_ok4 b0 : dec_ok 4 (dec_base s dec_rec false b0).
  Proof.
    intros b OK. destruct b0 as [p|ci|cls|]; cbn [dec_base].
    - exact (dec_prim_ok p b OK).
    - destruct (ctor_at s ci) as [c|]; [exact (dec_boxed_ok c b OK)|err_now].
    - exact (dec_class_ok cls b OK).
    - err_now.
  Qed.
  Lemma dec_elems_ok k bare b0 : forall n, dec_ok 0 (dec_elems s dec_rec k bare b0 n).
  Proof.
    induction k as [|k IH]; intros n b OK; cbn [dec_elems].
    - destruct (n <=? 0); split; try discriminate; intros v r E; inversion E; subst; split; [assumption|lia].
    - destruct (n <=? 0); [split; [discriminate|]; intros v r E; inversion E; subst; split; [assumption|lia]|].
      destruct (dec_base_ok0 bare b0 b OK) as [NP HS].
      destruct (dec_base s dec_rec bare b0 b) as [[v0 r0]|e|]; [|split; [discriminate|intros; discriminate]|congruence].
      destruct (HS v0 r0 eq_refl) as [OK0 L0]. destruct (IH (n - 1) r0 OK0) as [NP' HS'].
      destruct (dec_elems s dec_rec k bare b0 (n - 1) r0) as [[l r1]|e|]; [|split; [discriminate|intros; discriminate]|congruence].
      split; [discriminate|]. intros v r E; inversion E; subst. destruct (HS' l r eq_refl). split; [assumption|lia].
  Qed.
  Lemma dec_hdr_ok bh b : bytes_ok b ->
    dec_hdr bh b <> Panic /\ (forall n r, dec_hdr bh b = Ok (n, r) -> bytes_ok r /\ len r + 4 <= len b).
  Proof.
    intros OK. unfold dec_hdr, map_err. destruct bh.
    - destruct (decode_int_good b OK) as [NP HS]. destruct (decode_int b) as [[n r]|e|]; [|split; [discriminate|intros; discriminate]|congruence].
      split; [discriminate|]. intros n' r' E; inversion E; subst. apply (HS n' r' eq_refl).
    - destruct (decode_vector_header_good b OK) as [NP HS]. destruct (decode_vector_header b) as [[n r]|e|]; [|split; [discriminate|intros; discriminate]|congruence].
      split; [discriminate|]. intros n' r' E; inversion E; subst. apply (HS n' r' eq_refl).
  Qed.
  Lemma prealloc_range n : 0 <= prealloc n /\ prealloc n <= c_PreallocateLimit.
  Proof.
    assert (P : 0 < c_PreallocateLimit) by reflexivity.
    unfold prealloc, prealloc_guard_go, prealloc_cap_go. destruct (Z.gtb_spec n 0); [|lia].
    pose proof (Z.rem_bound_pos n c_PreallocateLimit ltac:(lia) P). lia.
  Qed.
  Lemma make_cap_prealloc n : make_cap (prealloc n) = Ok tt.
  Proof. unfold make_cap. destruct (prealloc_range n). destruct (Z.ltb_spec (prealloc n) 0); [lia|reflexivity]. Qed.
  Lemma dec_shape_ok sh b0 : dec_ok 4 (dec_shape s dec_rec sh b0).
  Proof.
    intros b OK. destruct sh as [|bh be bd]; cbn [dec_shape]; [exact (dec_base_ok4 b0 b OK)|].
    destruct (dec_hdr_ok bh b OK) as [NP HS].
    destruct (dec_hdr bh b) as [[n r0]|e|]; cbn [bind]; [|split; [discriminate|intros; discriminate]|congruence].
    rewrite make_cap_prealloc. cbn [bind].
    destruct (HS n r0 eq_refl) as [OK0 L0]. destruct (dec_elems_ok (S (length r0)) bd b0 n r0 OK0) as [NP' HS'].
    destruct (dec_elems s dec_rec (S (length r0)) bd b0 n r0) as [[l r1]|e|]; cbn [bind]; [|split; [discriminate|intros; discriminate]|congruence].
    split; [discriminate|]. intros v r E; inversion E; subst. destruct (HS' l r eq_refl). split; [assumption|lia].
  Qed.
  Definition kmin (k : fkind) : Z := match k with KFlags | KPlain _ _ => 4 | _ => 0 end.
  Lemma dec_field_ok k acc : dec_ok (kmin k) (dec_field s dec_rec k acc).
  Proof.
    intros b OK. destruct k as [|sh b0|ff bit sh b0|ff bit]; cbn [dec_field kmin].
    - exact (lift_p_good decode_uint32 VZ decode_uint32_good b OK).
    - exact (dec_shape_ok sh b0 b OK).
    - destruct (has_bit (flag_at acc ff) bit); [exact (dec_ok_weaken 4 0 _ ltac:(lia) (dec_shape_ok sh b0) b OK)|].
      split; [discriminate|]. intros v r E; inversion E; subst. split; [assumption|lia].
    - split; [discriminate|]. intros v r E; inversion E; subst. split; [assumption|lia].
  Qed.
  Lemma kmin_nonneg k : 0 <= kmin k.
  Proof. destruct k; cbn; lia. Qed.
  Definition fsmin (fs : list fkind) : Z := if existsb (fun k => match k with KFlags | KPlain _ _ => true | _ => false end) fs then 4 else 0.
  Lemma dec_fields_ok fs : forall acc, dec_ok (fsmin fs) (dec_fields s dec_rec fs acc).
  Proof.
    induction fs as [|k fs IH]; intros acc b OK; cbn [dec_fields].
    - split; [discriminate|]. intros v r E; inversion E; subst. split; [assumption|cbn; lia].
    - destruct (dec_field_ok k acc b OK) as [NP HS].
      destruct (dec_field s dec_rec k acc b) as [[v0 r0]|e|]; [|split; [discriminate|intros; discriminate]|congruence].
      destruct (HS v0 r0 eq_refl) as [OK0 L0]. destruct (IH (acc ++ [v0]) r0 OK0) as [NP' HS'].
      split; [exact NP'|]. intros v r E. destruct (HS' v r E) as [OK1 L1]. split; [assumption|].
      unfold fsmin in *. cbn [existsb]. unfold kmin in L0.
      destruct k; cbn [orb]; destruct (existsb _ fs); lia.
  Qed.
End LevelA.

Lemma fsmin_nonneg fs : 0 <= fsmin fs.
Proof. unfold fsmin. destruct (existsb _ fs); lia. Qed.

Lemma dec_obj_ok s fuel : forall c, dec_ok (fsmin (c_fields c)) (dec_obj s fuel c).
Proof.
  induction fuel as [|f IH]; intros c b OK; cbn [dec_obj]; [split; [discriminate|intros; discriminate]|].
  assert (Hrec : forall c, dec_ok 0 (dec_obj s f c)).
  { intros c'. apply (dec_ok_weaken (fsmin (c_fields c'))); [apply fsmin_nonneg|apply IH]. }
  destruct (dec_fields_ok s (dec_obj s f) Hrec (c_fields c) [] b OK) as [NP HS].
  destruct (dec_fields s (dec_obj s f) (c_fields c) [] b) as [[vs r0]|e|]; [|split; [discriminate|intros; discriminate]|congruence].
  split; [discriminate|]. intros v r E; inversion E; subst. apply (HS vs r eq_refl).
Qed.
Lemma dec_obj_ok0 s fuel c : dec_ok 0 (dec_obj s fuel c).
Proof. apply (dec_ok_weaken (fsmin (c_fields c))); [apply fsmin_nonneg|apply dec_obj_ok]. Qed.

Theorem decode_no_panic s t fuel b : bytes_ok b -> decode s t fuel b <> Panic.
Proof.
  intros OK. destruct t as [ci|ci|cls]; cbn [decode].
  - destruct (ctor_at s ci) as [c|]; [|discriminate]. apply (dec_boxed_ok (dec_obj s fuel) (dec_obj_ok0 s fuel) c b OK).
  - destruct (ctor_at s ci) as [c|]; [|discriminate]. apply (dec_obj_ok0 s fuel c b OK).
  - apply (dec_class_ok s (dec_obj s fuel) (dec_obj_ok0 s fuel) cls b OK).
Qed.
Theorem decode_rest s t fuel b v r : bytes_ok b -> decode s t fuel b = Ok (v, r) -> bytes_ok r /\ len r <= len b.
Proof.
  intros OK E. destruct t as [ci|ci|cls]; cbn [decode] in E.
  - destruct (ctor_at s ci) as [c|]; [|discriminate].
    destruct (dec_boxed_ok (dec_obj s fuel) (dec_obj_ok0 s fuel) c b OK) as [_ HS]. destruct (HS v r E). split; [assumption|lia].
  - destruct (ctor_at s ci) as [c|]; [|discriminate].
    destruct (dec_obj_ok0 s fuel c b OK) as [_ HS]. destruct (HS v r E). split; [assumption|lia].
  - destruct (dec_class_ok s (dec_obj s fuel) (dec_obj_ok0 s fuel) cls b OK) as [_ HS]. destruct (HS v r E). split; [assumption|lia].
Qed.

(* ------------------------------------------------------------------ *)
(* Part E: the preallocation never exceeds bin.PreallocateLimit        *)
(* ------------------------------------------------------------------ *)
Theorem prealloc_bound n : 0 <= prealloc n <= c_PreallocateLimit.
Proof.
  assert (P : 0 < c_PreallocateLimit) by reflexivity.
  unfold prealloc, prealloc_guard_go, prealloc_cap_go. destruct (Z.gtb_spec n 0); [|lia].
  pose proof (Z.rem_bound_pos n c_PreallocateLimit ltac:(lia) P). lia.
Qed.

(* ------------------------------------------------------------------ *)
(* well-formedness: what schema_wf gives                              *)
(* ------------------------------------------------------------------ *)
Lemma forallb_combine_seq {A} (f : nat * A -> bool) (l : list A) : forall a,
  forallb f (combine (seq a (length l)) l) = true ->
  forall i k, nth_error l i = Some k -> f ((a + i)%nat, k) = true.
Proof.
  induction l as [|x l IH]; intros a H i k E; [destruct i; discriminate|].
  cbn [length seq combine forallb] in H. apply andb_true_iff in H. destruct H as [H0 H1].
  destruct i as [|i]; cbn [nth_error] in E.
  - inversion E; subst. rewrite Nat.add_0_r. exact H0.
  - replace (a + S i)%nat with (S a + i)%nat by lia. apply (IH (S a) H1 i k E).
Qed.

Lemma ctor_wf_field s c : ctor_wf s c = true ->
  forall i k, nth_error (c_fields c) i = Some k -> field_wf s (c_fields c) i k = true.
Proof.
  intros H i k E. unfold ctor_wf in H. apply andb_true_iff in H. destruct H as [_ H].
  exact (forallb_combine_seq (fun pk => field_wf s (c_fields c) (fst pk) (snd pk)) (c_fields c) 0%nat H i k E).
Qed.
Lemma ctor_wf_id s c : ctor_wf s c = true -> 0 <= c_id c < 2 ^ 32.
Proof.
  intros H. unfold ctor_wf in H. apply andb_true_iff in H. destruct H as [H _].
  apply andb_true_iff in H. destruct H as [H0 H1]. apply Z.leb_le in H0. apply Z.ltb_lt in H1. lia.
Qed.
Lemma ctor_at_in s ci c : ctor_at s ci = Some c -> In c (s_ctors s).
Proof. unfold ctor_at. destruct (ci <? 0); [discriminate|]. apply nth_error_In. Qed.
Lemma schema_wf_ctor s c : schema_wf s = true -> In c (s_ctors s) -> ctor_wf s c = true.
Proof.
  intros H I. unfold schema_wf in H. apply andb_true_iff in H. destruct H as [H _].
  rewrite forallb_forall in H. apply H, I.
Qed.
Lemma wf_ctor_at s ci c : schema_wf s = true -> ctor_at s ci = Some c -> ctor_wf s c = true.
Proof. intros H E. apply (schema_wf_ctor s c H), (ctor_at_in s ci c E). Qed.
Lemma wf_class_find s cls id c : schema_wf s = true -> class_find s cls id = Some c -> ctor_wf s c = true.
Proof.
  intros H E. unfold class_find in E. destruct (class_at s cls) as [l|]; [|discriminate].
  destruct (assoc_id l id) as [ci|]; [|discriminate]. apply (wf_ctor_at s ci c H E).
Qed.
(* the dispatch finds exactly the constructor with the peeked id *)
Lemma assoc_id_in l id ci : assoc_id l id = Some ci -> In (id, ci) l.
Proof.
  induction l as [|[i c] l IH]; cbn [assoc_id]; [discriminate|].
  destruct (Z.eqb_spec i id); [intros E; inversion E; subst; left; reflexivity|intros E; right; apply IH, E].
Qed.
Lemma wf_class_find_id s cls id c : schema_wf s = true -> class_find s cls id = Some c -> c_id c = id.
Proof.
  intros H E. unfold class_find in E. destruct (class_at s cls) as [l|] eqn:EC; [|discriminate].
  destruct (assoc_id l id) as [ci|] eqn:EA; [|discriminate].
  unfold schema_wf in H. apply andb_true_iff in H. destruct H as [_ H]. rewrite forallb_forall in H.
  assert (I : In l (s_classes s)).
  { unfold class_at in EC. destruct (cls <? 0); [discriminate|]. apply (nth_error_In _ _ EC). }
  specialize (H l I). unfold class_wf in H. apply andb_true_iff in H. destruct H as [_ H].
  rewrite forallb_forall in H. specialize (H (id, ci) (assoc_id_in l id ci EA)). cbn [fst snd] in H.
  rewrite E in H. apply Z.eqb_eq in H. exact H.
Qed.

Definition fshape_wf (s : schema) (k : fkind) : bool :=
  match k with KPlain sh b | KCond _ _ sh b => shape_wf s sh b | _ => true end.
Lemma field_wf_shape s fs i k : field_wf s fs i k = true -> fshape_wf s k = true.
Proof.
  destruct k as [|sh b|ff bit sh b|ff bit]; cbn [field_wf fshape_wf]; intros H; try reflexivity.
  - apply andb_true_iff in H. destruct H as [_ H]. exact H.
  - apply andb_true_iff in H. destruct H as [H _]. apply andb_true_iff in H. destruct H as [_ H]. exact H.
Qed.
Lemma ctor_wf_shapes s c : ctor_wf s c = true -> Forall (fun k => fshape_wf s k = true) (c_fields c).
Proof.
  intros H. apply Forall_forall. intros k I. destruct (In_nth_error _ _ I) as [i E].
  apply (field_wf_shape s (c_fields c) i k), (ctor_wf_field s c H i k E).
Qed.

(* ------------------------------------------------------------------ *)
(* Part B: fuel                                                       *)
(* ------------------------------------------------------------------ *)
Definition nofuel {A} (r : res serr A) : Prop := r <> Err EOutOfFuel.

Lemma dec_prim_nofuel p b : nofuel (dec_prim p b).
Proof.
  unfold nofuel, dec_prim, lift_p, decode_string.
  destruct p; match goal with |- context [match ?d with _ => _ end] => destruct d as [[? ?]|?|] end; discriminate.
Qed.

Ltac nf_err H := let E := fresh "E" in intro E; inversion E; subst; apply H; reflexivity.

Section LevelB.
  Variable s : schema.
  Hypothesis Hs : schema_wf s = true.
  Variable dec_rec : ctor -> list Z -> sres value.
  Variable L : Z.
  Hypothesis Hrec : forall c, dec_ok 0 (dec_rec c).
  Hypothesis Hrec4 : forall c, consumes c = true -> dec_ok 4 (dec_rec c).
  Hypothesis Hfuel : forall c r, ctor_wf s c = true -> bytes_ok r -> len r + 4 <= L -> nofuel (dec_rec c r).

  Lemma dec_boxed_nofuel c b : ctor_wf s c = true -> bytes_ok b -> len b <= L -> nofuel (dec_boxed dec_rec c b).
  Proof.
    intros W OK LB. unfold dec_boxed. destruct (consume_id_good (c_id c) b OK) as [_ HS].
    destruct (consume_id (c_id c) b) as [r0|e|]; [|destruct (consume_id_spec (c_id c) b) as [[_ E]|[[_ [_ E]]|[_ [_ E]]]]; discriminate|discriminate].
    destruct (HS r0 eq_refl). apply Hfuel; [exact W|assumption|lia].
  Qed.
  Lemma dec_class_nofuel cls b : bytes_ok b -> len b <= L -> nofuel (dec_class s dec_rec cls b).
  Proof.
    intros OK LB. unfold dec_class. destruct (peek_id_spec b) as [[_ E]|[_ E]]; rewrite E; [discriminate|].
    destruct (class_find s cls (le_dec (firstn 4 b))) as [c|] eqn:EC; [|discriminate].
    apply dec_boxed_nofuel; [apply (wf_class_find s cls _ c Hs EC)|assumption|assumption].
  Qed.
  Lemma dec_base_nofuel (bare : bool) b0 b : bytes_ok b -> len b + (if bare then 4 else 0) <= L -> nofuel (dec_base s dec_rec bare b0 b).
  Proof.
    intros OK LB. destruct b0 as [p|ci|cls|]; cbn [dec_base].
    - apply dec_prim_nofuel.
    - destruct (ctor_at s ci) as [c|] eqn:EC; [|discriminate].
      pose proof (wf_ctor_at s ci c Hs EC) as W.
      destruct bare; [apply Hfuel; assumption|apply dec_boxed_nofuel; [assumption|assumption|lia]].
    - apply dec_class_nofuel; [assumption|destruct bare; lia].
    - discriminate.
  Qed.
  Lemma dec_elem_ok4 bh be bd b0 : shape_wf s (SVec bh be bd) b0 = true -> dec_ok 4 (dec_base s dec_rec bd b0).
  Proof.
    intros W. cbn [shape_wf] in W. apply andb_true_iff in W. destruct W as [_ W].
    destruct bd; [|apply (dec_base_ok4 s dec_rec Hrec)].
    destruct b0 as [p|ci|cls|]; try discriminate. intros b OK. cbn [dec_base].
    destruct (ctor_at s ci) as [c|]; [|discriminate]. exact (Hrec4 c W b OK).
  Qed.
  Lemma dec_elems_nofuel bh be bd b0 : shape_wf s (SVec bh be bd) b0 = true ->
    forall k n b, bytes_ok b -> len b + 4 <= L -> len b < Z.of_nat k -> nofuel (dec_elems s dec_rec k bd b0 n b).
  Proof.
    intros W. induction k as [|k IH]; intros n b OK LB LK; [pose proof (len_nonneg b); lia|].
    cbn [dec_elems]. destruct (n <=? 0); [discriminate|].
    pose proof (dec_base_nofuel bd b0 b OK ltac:(destruct bd; lia)) as NF.
    destruct (dec_elem_ok4 bh be bd b0 W b OK) as [_ HS].
    destruct (dec_base s dec_rec bd b0 b) as [[v0 r0]|e|]; [|nf_err NF|discriminate].
    destruct (HS v0 r0 eq_refl) as [OK0 L0].
    specialize (IH (n - 1) r0 OK0 ltac:(lia) ltac:(lia)).
    destruct (dec_elems s dec_rec k bd b0 (n - 1) r0) as [[l r1]|e|]; [discriminate|nf_err IH|discriminate].
  Qed.
  Lemma dec_hdr_nofuel bh b : nofuel (dec_hdr bh b).
  Proof. unfold nofuel, dec_hdr, map_err. destruct bh; [destruct (decode_int b) as [[? ?]|?|]|destruct (decode_vector_header b) as [[? ?]|?|]]; discriminate. Qed.
  Lemma dec_shape_nofuel sh b0 b : shape_wf s sh b0 = true -> bytes_ok b -> len b <= L -> nofuel (dec_shape s dec_rec sh b0 b).
  Proof.
    intros W OK LB. destruct sh as [|bh be bd]; cbn [dec_shape]; [apply dec_base_nofuel; [assumption|lia]|].
    pose proof (dec_hdr_nofuel bh b) as NF. destruct (dec_hdr_ok bh b OK) as [_ HS].
    destruct (dec_hdr bh b) as [[n r0]|e|]; cbn [bind]; [|nf_err NF|discriminate].
    rewrite make_cap_prealloc. cbn [bind]. destruct (HS n r0 eq_refl) as [OK0 L0].
    pose proof (dec_elems_nofuel bh be bd b0 W (S (length r0)) n r0 OK0 ltac:(lia) ltac:(unfold len; lia)) as NF'.
    destruct (dec_elems s dec_rec (S (length r0)) bd b0 n r0) as [[l r1]|e|]; cbn [bind]; [discriminate|nf_err NF'|discriminate].
  Qed.
  Lemma dec_field_nofuel k acc b : fshape_wf s k = true -> bytes_ok b -> len b <= L -> nofuel (dec_field s dec_rec k acc b).
  Proof.
    intros W OK LB. destruct k as [|sh b0|ff bit sh b0|ff bit]; cbn [dec_field fshape_wf] in *.
    - unfold nofuel, lift_p. destruct (decode_uint32 b) as [[? ?]|?|]; discriminate.
    - apply dec_shape_nofuel; assumption.
    - destruct (has_bit (flag_at acc ff) bit); [apply dec_shape_nofuel; assumption|discriminate].
    - discriminate.
  Qed.
  Lemma dec_fields_nofuel fs : Forall (fun k => fshape_wf s k = true) fs ->
    forall acc b, bytes_ok b -> len b <= L -> nofuel (dec_fields s dec_rec fs acc b).
  Proof.
    induction fs as [|k fs IH]; intros W acc b OK LB; cbn [dec_fields]; [discriminate|].
    inversion W as [|? ? Wk Wfs]; subst.
    pose proof (dec_field_nofuel k acc b Wk OK LB) as NF.
    destruct (dec_field_ok s dec_rec Hrec k acc b OK) as [_ HS].
    destruct (dec_field s dec_rec k acc b) as [[v0 r0]|e|]; [|nf_err NF|discriminate].
    destruct (HS v0 r0 eq_refl) as [OK0 L0].
    apply IH; [assumption|assumption|]. pose proof (kmin_nonneg k). lia.
  Qed.
End LevelB.

Lemma consumes_fsmin c : consumes c = true -> fsmin (c_fields c) = 4.
Proof. unfold consumes, fsmin. intros ->. reflexivity. Qed.

(* recursion depth: fuel f suffices as soon as 4 * f > len b *)
Theorem dec_obj_fuel s : schema_wf s = true ->
  forall f c b, ctor_wf s c = true -> bytes_ok b -> len b < 4 * Z.of_nat f -> nofuel (dec_obj s f c b).
Proof.
  intros Hs. induction f as [|f IH]; intros c b W OK LB; [pose proof (len_nonneg b); lia|].
  cbn [dec_obj].
  assert (Hrec4 : forall c, consumes c = true -> dec_ok 4 (dec_obj s f c)).
  { intros c' Hc. rewrite <- (consumes_fsmin c' Hc). apply dec_obj_ok. }
  assert (Hfuel : forall c r, ctor_wf s c = true -> bytes_ok r -> len r + 4 <= len b -> nofuel (dec_obj s f c r)).
  { intros c' r W' OK' L'. apply IH; [assumption|assumption|lia]. }
  pose proof (dec_fields_nofuel s Hs (dec_obj s f) (len b) (dec_obj_ok0 s f) Hrec4 Hfuel (c_fields c)
                (ctor_wf_shapes s c W) [] b OK ltac:(lia)) as NF.
  destruct (dec_fields s (dec_obj s f) (c_fields c) [] b) as [[vs r0]|e|]; [discriminate|nf_err NF|discriminate].
Qed.

Lemma std_fuel_enough b : len b + 4 < 4 * Z.of_nat (std_fuel b).
Proof.
  unfold std_fuel, len. pose proof (Nat.div_mod (length b) 4 ltac:(lia)) as D.
  pose proof (Nat.mod_upper_bound (length b) 4 ltac:(lia)). lia.
Qed.

Theorem decode_fuel s t fuel b : schema_wf s = true -> bytes_ok b -> len b + 4 < 4 * Z.of_nat fuel ->
  nofuel (decode s t fuel b).
Proof.
  intros Hs OK LB.
  assert (Hfuel : forall c r, ctor_wf s c = true -> bytes_ok r -> len r + 4 <= len b + 4 -> nofuel (dec_obj s fuel c r)).
  { intros c r W OK' L'. apply (dec_obj_fuel s Hs); [assumption|assumption|lia]. }
  assert (Hrec4 : forall c, consumes c = true -> dec_ok 4 (dec_obj s fuel c)).
  { intros c' Hc. rewrite <- (consumes_fsmin c' Hc). apply dec_obj_ok. }
  destruct t as [ci|ci|cls]; cbn [decode].
  - destruct (ctor_at s ci) as [c|] eqn:EC; [|discriminate].
    apply (dec_boxed_nofuel s (dec_obj s fuel) (len b + 4) Hfuel c b (wf_ctor_at s ci c Hs EC) OK ltac:(lia)).
  - destruct (ctor_at s ci) as [c|] eqn:EC; [|discriminate].
    apply (dec_obj_fuel s Hs); [apply (wf_ctor_at s ci c Hs EC)|assumption|lia].
  - apply (dec_class_nofuel s Hs (dec_obj s fuel) (len b + 4) Hfuel cls b OK ltac:(lia)).
Qed.

(* ------------------------------------------------------------------ *)
(* Part C: results other than EOutOfFuel do not depend on the fuel     *)
(* ------------------------------------------------------------------ *)
Definition le_res {A} (r1 r2 : res serr A) : Prop := r1 = Err EOutOfFuel \/ r1 = r2.
Lemma le_res_refl {A} (r : res serr A) : le_res r r.
Proof. right; reflexivity. Qed.
Lemma le_res_trans {A} (a b c : res serr A) : le_res a b -> le_res b c -> le_res a c.
Proof. intros [H|H] H'; subst; [left; reflexivity|exact H']. Qed.

Section LevelC.
  Variable s : schema.
  Variables rec1 rec2 : ctor -> list Z -> sres value.
  Hypothesis H12 : forall c b, le_res (rec1 c b) (rec2 c b).

  Lemma dec_boxed_le c b : le_res (dec_boxed rec1 c b) (dec_boxed rec2 c b).
  Proof. unfold dec_boxed. destruct (consume_id (c_id c) b); [apply H12|apply le_res_refl|apply le_res_refl]. Qed.
  Lemma dec_class_le cls b : le_res (dec_class s rec1 cls b) (dec_class s rec2 cls b).
  Proof.
    unfold dec_class. destruct (peek_id b); [|apply le_res_refl|apply le_res_refl].
    destruct (class_find s cls a); [apply dec_boxed_le|apply le_res_refl].
  Qed.
  Lemma dec_base_le bare b0 b : le_res (dec_base s rec1 bare b0 b) (dec_base s rec2 bare b0 b).
  Proof.
    destruct b0 as [p|ci|cls|]; cbn [dec_base]; try apply le_res_refl.
    - destruct (ctor_at s ci); [|apply le_res_refl]. destruct bare; [apply H12|apply dec_boxed_le].
    - apply dec_class_le.
  Qed.
  Lemma dec_elems_le bare b0 : forall k n b, le_res (dec_elems s rec1 k bare b0 n b) (dec_elems s rec2 k bare b0 n b).
  Proof.
    induction k as [|k IH]; intros n b; cbn [dec_elems]; [apply le_res_refl|].
    destruct (n <=? 0); [apply le_res_refl|].
    destruct (dec_base_le bare b0 b) as [E|E]; rewrite E; [left; reflexivity|].
    destruct (dec_base s rec2 bare b0 b) as [[v0 r0]|e|]; [|apply le_res_refl|apply le_res_refl].
    destruct (IH (n - 1) r0) as [E'|E']; rewrite E'; [left; reflexivity|apply le_res_refl].
  Qed.
  Lemma dec_shape_le sh b0 b : le_res (dec_shape s rec1 sh b0 b) (dec_shape s rec2 sh b0 b).
  Proof.
    destruct sh as [|bh be bd]; cbn [dec_shape]; [apply dec_base_le|].
    destruct (dec_hdr bh b) as [[n r0]|e|]; cbn [bind]; [|apply le_res_refl|apply le_res_refl].
    destruct (make_cap (prealloc n)); cbn [bind]; [|apply le_res_refl|apply le_res_refl].
    destruct (dec_elems_le bd b0 (S (length r0)) n r0) as [E|E]; rewrite E; [left; reflexivity|apply le_res_refl].
  Qed.
  Lemma dec_field_le k acc b : le_res (dec_field s rec1 k acc b) (dec_field s rec2 k acc b).
  Proof.
    destruct k as [|sh b0|ff bit sh b0|ff bit]; cbn [dec_field]; try apply le_res_refl.
    - apply dec_shape_le.
    - destruct (has_bit (flag_at acc ff) bit); [apply dec_shape_le|apply le_res_refl].
  Qed.
  Lemma dec_fields_le fs : forall acc b, le_res (dec_fields s rec1 fs acc b) (dec_fields s rec2 fs acc b).
  Proof.
    induction fs as [|k fs IH]; intros acc b; cbn [dec_fields]; [apply le_res_refl|].
    destruct (dec_field_le k acc b) as [E|E]; rewrite E; [left; reflexivity|].
    destruct (dec_field s rec2 k acc b) as [[v0 r0]|e|]; [apply IH|apply le_res_refl|apply le_res_refl].
  Qed.
End LevelC.

Lemma dec_obj_le_S s : forall f c b, le_res (dec_obj s f c b) (dec_obj s (S f) c b).
Proof.
  induction f as [|f IH]; intros c b; [left; reflexivity|].
  cbn [dec_obj]. fold (dec_obj s f). 
  destruct (dec_fields_le s (dec_obj s f) (dec_obj s (S f)) IH (c_fields c) [] b) as [E|E]; rewrite E; [left; reflexivity|apply le_res_refl].
Qed.
Lemma dec_obj_le s f f' c b : (f <= f')%nat -> le_res (dec_obj s f c b) (dec_obj s f' c b).
Proof.
  induction 1 as [|f' Hle IH]; [apply le_res_refl|]. eapply le_res_trans; [exact IH|apply dec_obj_le_S].
Qed.
Theorem decode_le s t f f' b : (f <= f')%nat -> le_res (decode s t f b) (decode s t f' b).
Proof.
  intros Hle. destruct t as [ci|ci|cls]; cbn [decode].
  - destruct (ctor_at s ci); [|apply le_res_refl]. apply dec_boxed_le. intros; apply dec_obj_le, Hle.
  - destruct (ctor_at s ci); [|apply le_res_refl]. apply dec_obj_le, Hle.
  - apply dec_class_le. intros; apply dec_obj_le, Hle.
Qed.

(* ------------------------------------------------------------------ *)
(* Part D: round trip                                                  *)
(* ------------------------------------------------------------------ *)
Lemma set_bit_has f bit : 0 <= bit -> has_bit f bit = true -> set_bit f bit = f.
Proof.
  intros Hb H. unfold set_bit, has_bit in *. rewrite Z.shiftl_1_l. apply Z.bits_inj'. intros n Hn.
  rewrite Z.lor_spec, Z.pow2_bits_eqb by lia.
  destruct (Z.eqb_spec bit n); [subst; rewrite H; reflexivity|apply orb_false_r].
Qed.
Lemma upd_flag_id vs : forall ff bit, 0 <= bit -> has_bit (flag_at vs ff) bit = true -> upd_flag vs ff bit = vs.
Proof.
  induction vs as [|v vs IH]; intros ff bit Hb H; [destruct ff; reflexivity|].
  destruct ff as [|ff]; cbn [upd_flag].
  - unfold flag_at in H. cbn [nth_error] in H. destruct v; try reflexivity. rewrite set_bit_has by assumption. reflexivity.
  - f_equal. apply IH; [assumption|]. unfold flag_at in *. cbn [nth_error] in H. exact H.
Qed.
Lemma flag_at_app pre suf ff : (ff < length pre)%nat -> flag_at (pre ++ suf) ff = flag_at pre ff.
Proof. intros H. unfold flag_at. rewrite nth_error_app1 by exact H. reflexivity. Qed.

Lemma all_zero_zeros l : all_zero l = true -> l = zeros (len l).
Proof.
  unfold all_zero, zeros, len. rewrite Nat2Z.id. induction l as [|x l IH]; cbn [forallb length repeat]; [reflexivity|].
  intros H. apply andb_true_iff in H. destruct H as [H0 H1]. apply Z.eqb_eq in H0. subst. f_equal. apply IH, H1.
Qed.
Lemma all_zero_of_zeros n : all_zero (zeros n) = true.
Proof. unfold all_zero, zeros. induction (Z.to_nat n); cbn; auto. Qed.

Lemma is_absent_eq sh b v : is_absent sh b v = true -> v = absent sh b.
Proof.
  unfold is_absent. destruct (absent sh b) as [a|a|a| | |] eqn:EA; destruct v as [z|z|z| | |]; try discriminate; intros H.
  - apply Z.eqb_eq in H. subst; reflexivity.
  - apply andb_true_iff in H. destruct H as [H0 H1]. apply Z.eqb_eq in H0. apply all_zero_zeros in H1.
    assert (all_zero a = true) as Ha.
    { destruct sh; [|discriminate]. destruct b as [[]| | |]; inversion EA; subst; try reflexivity; apply all_zero_of_zeros. }
    apply all_zero_zeros in Ha. rewrite H1, Ha, H0. reflexivity.
  - apply eqb_prop in H. subst; reflexivity.
  - reflexivity.
Qed.
Lemma absent_zero s zr sh b : zero_shape s zr sh b (absent sh b) = true.
Proof.
  destruct sh; [|reflexivity]. destruct b as [[]| | |]; cbn; try reflexivity; apply all_zero_of_zeros.
Qed.

Lemma encode_bytes_len4 v : 4 <= len (encode_bytes v).
Proof.
  pose proof (len_nonneg v). pose proof (encode_bytes_aligned v) as A. rewrite encode_bytes_len in *.
  destruct (Z.leb_spec (len v) 253).
  - destruct (nearest_spec (len v + 1) ltac:(lia)). pose proof (Z.div_mod (nearest_padded_go (len v + 1)) 4 ltac:(lia)). lia.
  - destruct (nearest_spec (len v + 4) ltac:(lia)). lia.
Qed.
Lemma bytes_okb_true l : bytes_okb l = true -> bytes_ok l.
Proof. apply bytes_okb_spec. Qed.

(* primitives *)
Lemma rt_prim p v : wt_prim p v = true ->
  exists bs, enc_prim p v = Ok bs /\ bytes_ok bs /\ 4 <= len bs /\ forall r, dec_prim p (bs ++ r) = Ok (v, r).
Proof.
  destruct p, v as [z|z|z| | |]; cbn [wt_prim]; try discriminate; intros H;
    repeat match type of H with _ && _ = true => apply andb_true_iff in H; destruct H as [H ?] end;
    repeat match goal with
           | X : (_ <=? _) = true |- _ => apply Z.leb_le in X
           | X : (_ <? _) = true |- _ => apply Z.ltb_lt in X
           | X : (_ =? _) = true |- _ => apply Z.eqb_eq in X
           | X : bytes_okb _ = true |- _ => apply bytes_okb_true in X
           end; cbn [enc_prim dec_prim]; unfold decode_string, encode_string.
  - eexists; split; [reflexivity|]. split; [apply le_enc_ok|]. split; [rewrite encode_int_aligned; lia|].
    intros r. rewrite decode_int_rt by lia. reflexivity.
  - eexists; split; [reflexivity|]. split; [apply le_enc_ok|]. split; [rewrite encode_long_aligned; lia|].
    intros r. rewrite decode_long_rt by lia. reflexivity.
  - eexists; split; [reflexivity|]. split; [apply le_enc_ok|]. split; [rewrite encode_double_aligned; lia|].
    intros r. rewrite decode_double_rt by lia. reflexivity.
  - eexists; split; [reflexivity|]. split; [apply encode_bytes_ok; assumption|]. split; [apply encode_bytes_len4|].
    intros r. rewrite decode_bytes_rt by lia. reflexivity.
  - eexists; split; [reflexivity|]. split; [apply encode_bytes_ok; assumption|]. split; [apply encode_bytes_len4|].
    intros r. rewrite decode_bytes_rt by lia. cbn [lift_p]. destruct z; [discriminate|reflexivity].
  - eexists; split; [reflexivity|]. split; [apply encode_bytes_ok; [constructor|cbn; lia]|]. split; [apply encode_bytes_len4|].
    intros r. rewrite decode_bytes_rt by (cbn; lia). reflexivity.
  - match goal with X : len z = 16 |- _ => rewrite X end. cbn [Z.eqb Pos.eqb].
    eexists; split; [reflexivity|]. split; [unfold encode_int128; assumption|]. split; [unfold encode_int128; lia|].
    intros r. rewrite (decode_int128_rt z r) by assumption. reflexivity.
  - match goal with X : len z = 32 |- _ => rewrite X end. cbn [Z.eqb Pos.eqb].
    eexists; split; [reflexivity|]. split; [unfold encode_int256; assumption|]. split; [unfold encode_int256; lia|].
    intros r. rewrite (decode_int256_rt z r) by assumption. reflexivity.
  - eexists; split; [reflexivity|]. split; [apply le_enc_ok|]. split; [rewrite encode_bool_aligned; lia|].
    intros r. rewrite decode_bool_rt. reflexivity.
Qed.

Lemma dec_hdr_rt bh n r : 0 <= n < 2 ^ 31 -> dec_hdr bh (enc_hdr bh n ++ r) = Ok (n, r).
Proof.
  intros H. unfold dec_hdr, enc_hdr, map_err. destruct bh; [rewrite decode_int_rt by lia|rewrite decode_vector_header_rt by lia]; reflexivity.
Qed.
Lemma enc_hdr_ok bh n : bytes_ok (enc_hdr bh n) /\ 4 <= len (enc_hdr bh n).
Proof.
  unfold enc_hdr, encode_vector_header, encode_int, encode_uint32, encode_int32. destruct bh.
  - split; [apply le_enc_ok|rewrite len_le_enc; lia].
  - split; [apply bytes_ok_app; split; apply le_enc_ok|rewrite len_app, !len_le_enc; lia].
Qed.

Lemma ok_inj {E A} (a b : A) : @Ok E A a = Ok b -> a = b.
Proof. intros H; inversion H; reflexivity. Qed.

(* lengths of encodings (no typing needed) *)
Lemma enc_prim_len4 p v bs : enc_prim p v = Ok bs -> 4 <= len bs.
Proof.
  destruct p, v; cbn [enc_prim]; try discriminate; intros E;
    try (destruct (len b =? 16) eqn:L; [|discriminate]); try (destruct (len b =? 32) eqn:L; [|discriminate]);
    apply ok_inj in E; subst bs;
    try (rewrite encode_int_aligned; lia); try (rewrite encode_long_aligned; lia); try (rewrite encode_double_aligned; lia);
    try (rewrite encode_bool_aligned; lia); try apply encode_bytes_len4.
  - apply Z.eqb_eq in L. unfold encode_int128. lia.
  - apply Z.eqb_eq in L. unfold encode_int256. lia.
Qed.

Section LevelLen.
  Variable s : schema.
  Variable enc_rec : ctor -> list value -> res serr (list Z).
  Lemma enc_boxed_len4 c fs bs : enc_boxed enc_rec c fs = Ok bs -> 4 <= len bs.
  Proof.
    unfold enc_boxed. destruct (enc_rec c fs) as [body|e|]; cbn [bind]; try discriminate.
    intros E; apply ok_inj in E; subst bs. rewrite len_app. unfold encode_uint32. rewrite len_le_enc. pose proof (len_nonneg body). lia.
  Qed.
  Lemma enc_base_len4 b v bs : enc_base s enc_rec false b v = Ok bs -> 4 <= len bs.
  Proof.
    destruct b as [p|ci|cls|]; cbn [enc_base].
    - apply enc_prim_len4.
    - destruct v; try discriminate. destruct (ctor_at s ci) as [c|]; [|discriminate]. destruct (id =? c_id c); [|discriminate]. apply enc_boxed_len4.
    - destruct v; try discriminate. destruct (class_find s cls id) as [c|]; [|discriminate]. apply enc_boxed_len4.
    - destruct v; try discriminate. destruct (global_find s id) as [c|]; [|discriminate]. apply enc_boxed_len4.
  Qed.
  Lemma enc_shape_len4 sh b v bs : enc_shape s enc_rec sh b v = Ok bs -> 4 <= len bs.
  Proof.
    destruct sh as [|bh be bd]; cbn [enc_shape]; [apply enc_base_len4|].
    destruct v; try discriminate.
    - intros E; apply ok_inj in E; subst bs. apply enc_hdr_ok.
    - destruct (enc_elems s enc_rec be b l) as [body|e|]; cbn [bind]; try discriminate.
      intros E; apply ok_inj in E; subst bs. rewrite len_app. pose proof (len_nonneg body). destruct (enc_hdr_ok bh (len l)). lia.
  Qed.
  Lemma enc_field_len k v all bs : enc_field s enc_rec k v all = Ok bs -> kmin k <= len bs.
  Proof.
    destruct k as [|sh b|ff bit sh b|ff bit]; cbn [enc_field kmin].
    - destruct v; try discriminate. intros E; apply ok_inj in E; subst bs. unfold encode_uint32. rewrite len_le_enc. lia.
    - apply enc_shape_len4.
    - intros _. apply len_nonneg.
    - intros _. apply len_nonneg.
  Qed.
  Lemma enc_fields_len fs : forall vs all bs, enc_fields s enc_rec fs vs all = Ok bs -> fsmin fs <= len bs.
  Proof.
    induction fs as [|k fs IH]; intros vs all bs; cbn [enc_fields].
    - destruct vs; [|discriminate]. intros E; apply ok_inj in E; subst bs. cbn. lia.
    - destruct vs as [|v vs]; [discriminate|].
      destruct (enc_field s enc_rec k v all) as [h|e|] eqn:EH; cbn [bind]; try discriminate.
      destruct (enc_fields s enc_rec fs vs all) as [t|e|] eqn:ET; cbn [bind]; try discriminate.
      intros E; apply ok_inj in E; subst bs. rewrite len_app. pose proof (enc_field_len k v all h EH). pose proof (IH vs all t ET).
      pose proof (len_nonneg h). pose proof (len_nonneg t).
      unfold fsmin in *. cbn [existsb]. unfold kmin in *. destruct k; cbn [orb]; destruct (existsb _ fs); lia.
  Qed.
End LevelLen.
Lemma enc_obj_len4 s f c vs bs : consumes c = true -> enc_obj s f c vs = Ok bs -> 4 <= len bs.
Proof.
  intros Hc. destruct f as [|f]; cbn [enc_obj]; [discriminate|]. intros E.
  apply enc_fields_len in E. rewrite (consumes_fsmin c Hc) in E. exact E.
Qed.

Ltac split_andb := repeat match goal with X : _ && _ = true |- _ => apply andb_true_iff in X; destruct X end.

Definition bit_ok (k : fkind) : Prop :=
  match k with KCond _ bit _ _ | KCondTrue _ bit => 0 <= bit | _ => True end.
Lemma field_wf_bit s fs i k : field_wf s fs i k = true -> bit_ok k.
Proof.
  destruct k as [|sh b|ff bit sh b|ff bit]; cbn [field_wf bit_ok flag_ref_wf]; intros H; try exact I; unfold flag_ref_wf in *;
    split_andb; repeat match goal with X : (_ <=? _) = true |- _ => apply Z.leb_le in X end; assumption.
Qed.
Lemma field_wf_flag s fs i k : field_wf s fs i k = true ->
  match k with KCond ff _ _ _ | KCondTrue ff _ => (ff < i)%nat | _ => True end.
Proof.
  destruct k as [|sh b|ff bit sh b|ff bit]; cbn [field_wf flag_ref_wf]; intros H; try exact I; unfold flag_ref_wf in *;
    split_andb; repeat match goal with X : (_ <? _)%nat = true |- _ => apply Nat.ltb_lt in X end; assumption.
Qed.

Section LevelD.
  Variable s : schema.
  Hypothesis Hs : schema_wf s = true.
  Variable wt_rec : ctor -> list value -> bool.
  Variable zero_rec : ctor -> list value -> bool.
  Variable enc_rec : ctor -> list value -> res serr (list Z).
  Variable dec_rec : ctor -> list Z -> sres value.
  Hypothesis Hrt : forall c vs, ctor_wf s c = true -> wt_rec c vs = true ->
    exists bs, enc_rec c vs = Ok bs /\ bytes_ok bs /\ forall r, dec_rec c (bs ++ r) = Ok (VObj (c_id c) vs, r).
  Hypothesis Henc4 : forall c vs bs, consumes c = true -> enc_rec c vs = Ok bs -> 4 <= len bs.

  Lemma rt_boxed c vs : ctor_wf s c = true -> wt_rec c vs = true ->
    exists bs, enc_boxed enc_rec c vs = Ok bs /\ bytes_ok bs /\ 4 <= len bs /\
               forall r, dec_boxed dec_rec c (bs ++ r) = Ok (VObj (c_id c) vs, r).
  Proof.
    intros W T. destruct (Hrt c vs W T) as [body [E [OKb D]]].
    exists (encode_uint32 (c_id c) ++ body). unfold enc_boxed. rewrite E. cbn [bind]. split; [reflexivity|].
    split; [apply bytes_ok_app; split; [apply le_enc_ok|assumption]|].
    split; [rewrite len_app; unfold encode_uint32; rewrite len_le_enc; pose proof (len_nonneg body); lia|].
    intros r. unfold dec_boxed. rewrite <- app_assoc, consume_id_app by (apply (ctor_wf_id s c W)). apply D.
  Qed.

  (* elements written bare must be structs whose constructor consumes input *)
  Definition bare_ok (bare : bool) (b : base) : Prop :=
    bare = true -> exists ci c, b = BStruct ci /\ ctor_at s ci = Some c /\ consumes c = true.

  Lemma rt_base (bare : bool) b v : bare_ok bare b -> wt_base s wt_rec b v = true ->
    exists bs, enc_base s enc_rec bare b v = Ok bs /\ bytes_ok bs /\ 4 <= len bs /\
               forall r, dec_base s dec_rec bare b (bs ++ r) = Ok (v, r).
  Proof.
    intros HB T. destruct b as [p|ci|cls|]; cbn [wt_base enc_base dec_base] in *.
    - apply rt_prim, T.
    - destruct v as [| | | | |id fs]; try discriminate. destruct (ctor_at s ci) as [c|] eqn:EC; [|discriminate].
      apply andb_true_iff in T. destruct T as [Ti T]. rewrite Ti. apply Z.eqb_eq in Ti. subst id.
      pose proof (wf_ctor_at s ci c Hs EC) as W.
      destruct bare.
      + destruct (HB eq_refl) as [ci' [c' [Eb [EC' Hc]]]]. inversion Eb; subst ci'. rewrite EC in EC'. inversion EC'; subst c'.
        destruct (Hrt c fs W T) as [bs [E [OKb D]]]. exists bs. split; [exact E|]. split; [exact OKb|]. split; [apply (Henc4 c fs bs Hc E)|exact D].
      + apply rt_boxed; assumption.
    - destruct v as [| | | | |id fs]; try discriminate. destruct (class_find s cls id) as [c|] eqn:EC; [|discriminate].
      pose proof (wf_class_find s cls id c Hs EC) as W. pose proof (wf_class_find_id s cls id c Hs EC) as Eid.
      destruct bare; [destruct (HB eq_refl) as [ci' [c' [Eb _]]]; discriminate|].
      destruct (rt_boxed c fs W T) as [bs [E [OKb [L D]]]]. exists bs. split; [exact E|]. split; [exact OKb|]. split; [exact L|].
      intros r. unfold dec_class.
      assert (P : peek_id (bs ++ r) = Ok id).
      { unfold enc_boxed in E. destruct (enc_rec c fs) as [body|e|]; cbn [bind] in E; try discriminate.
        apply ok_inj in E. subst bs. rewrite <- app_assoc. unfold encode_uint32.
        rewrite peek_id_app by (rewrite len_le_enc; reflexivity).
        rewrite le_dec_enc by (change (256 ^ Z.of_nat 4) with (2 ^ 32); apply (ctor_wf_id s c W)). rewrite Eid. reflexivity. }
      rewrite P, EC, D, Eid. reflexivity.
    - discriminate.
  Qed.

  Lemma rt_elems (bare : bool) b l : bare_ok bare b -> forallb (wt_base s wt_rec b) l = true ->
    exists body, enc_elems s enc_rec bare b l = Ok body /\ bytes_ok body /\ Z.of_nat (length l) <= len body /\
      forall k r, (length l <= k)%nat -> dec_elems s dec_rec k bare b (len l) (body ++ r) = Ok (l, r).
  Proof.
    intros HB. induction l as [|v l IH]; intros T.
    - exists []. split; [reflexivity|]. split; [constructor|]. split; [cbn; lia|].
      intros k r _. destruct k; reflexivity.
    - cbn [forallb] in T. apply andb_true_iff in T. destruct T as [Tv Tl].
      destruct (rt_base bare b v HB Tv) as [h [Eh [OKh [Lh Dh]]]]. destruct (IH Tl) as [body [Eb [OKb [Lb Db]]]].
      exists (h ++ body). cbn [enc_elems]. rewrite Eh, Eb. cbn [bind]. split; [reflexivity|].
      split; [apply bytes_ok_app; split; assumption|]. split; [rewrite len_app; cbn [length]; lia|].
      intros k r Hk. destruct k as [|k]; [cbn [length] in Hk; lia|]. cbn [dec_elems].
      rewrite len_cons. destruct (Z.leb_spec (1 + len l) 0); [pose proof (len_nonneg l); lia|].
      rewrite <- app_assoc, Dh. replace (1 + len l - 1) with (len l) by lia.
      rewrite Db by (cbn [length] in Hk; lia). reflexivity.
  Qed.

  Lemma shape_wf_bare bh be bd b : shape_wf s (SVec bh be bd) b = true -> be = bd /\ bare_ok bd b.
  Proof.
    cbn [shape_wf]. intros H. apply andb_true_iff in H. destruct H as [H0 H1]. apply eqb_prop in H0. split; [exact H0|].
    intros ->. destruct b as [p|ci|cls|]; try discriminate. destruct (ctor_at s ci) as [c|] eqn:EC; [|discriminate].
    exists ci, c. auto.
  Qed.

  Lemma rt_shape sh b v : shape_wf s sh b = true -> wt_shape s wt_rec sh b v = true ->
    exists bs, enc_shape s enc_rec sh b v = Ok bs /\ bytes_ok bs /\
               forall r, dec_shape s dec_rec sh b (bs ++ r) = Ok (v, r).
  Proof.
    intros W T. destruct sh as [|bh be bd]; cbn [wt_shape enc_shape dec_shape] in *.
    - destruct (rt_base false b v ltac:(intro; discriminate) T) as [bs [E [OKb [_ D]]]]. exists bs. auto.
    - destruct (shape_wf_bare bh be bd b W) as [Ebd HB]. subst be.
      destruct v as [| | | |l|]; try discriminate.
      + exists (enc_hdr bh 0). split; [reflexivity|]. split; [apply enc_hdr_ok|].
        intros r. rewrite dec_hdr_rt by lia. cbn [bind]. rewrite make_cap_prealloc. cbn [bind dec_elems Z.leb Z.compare]. reflexivity.
      + apply andb_true_iff in T. destruct T as [T Tl]. apply andb_true_iff in T. destruct T as [Tn Tlen]. apply Z.ltb_lt in Tlen.
        destruct (rt_elems bd b l HB Tl) as [body [Eb [OKb [Lb Db]]]].
        exists (enc_hdr bh (len l) ++ body). rewrite Eb. cbn [bind]. split; [reflexivity|].
        split; [apply bytes_ok_app; split; [apply enc_hdr_ok|assumption]|].
        intros r. rewrite <- app_assoc, dec_hdr_rt by (pose proof (len_nonneg l); lia). cbn [bind].
        rewrite make_cap_prealloc. cbn [bind].
        rewrite Db by (rewrite app_length; unfold len in Lb; lia). cbn [bind].
        destruct l; [discriminate|reflexivity].
  Qed.

  Lemma rt_field Fs pos k v pre suf : field_wf s Fs pos k = true -> length pre = pos ->
    wt_field s wt_rec k (pre ++ suf) v = true ->
    exists bs, enc_field s enc_rec k v (pre ++ suf) = Ok bs /\ bytes_ok bs /\
               forall r, dec_field s dec_rec k pre (bs ++ r) = Ok (v, r).
  Proof.
    intros W Hp T. pose proof (field_wf_flag s Fs pos k W) as Hff. pose proof (field_wf_shape s Fs pos k W) as Wsh.
    destruct k as [|sh b|ff bit sh b|ff bit]; cbn [wt_field enc_field dec_field fshape_wf] in *.
    - destruct v as [f| | | | |]; try discriminate. apply andb_true_iff in T. destruct T as [T0 T1]. apply Z.leb_le in T0. apply Z.ltb_lt in T1.
      exists (encode_uint32 f). split; [reflexivity|]. split; [apply le_enc_ok|].
      intros r. rewrite decode_uint32_rt by lia. reflexivity.
    - apply rt_shape; assumption.
    - rewrite (flag_at_app pre suf ff) in * by lia.
      destruct (has_bit (flag_at pre ff) bit); [apply rt_shape; assumption|].
      exists []. split; [reflexivity|]. split; [constructor|]. intros r. rewrite (is_absent_eq sh b v T). reflexivity.
    - rewrite (flag_at_app pre suf ff) in * by lia.
      destruct v as [| |x| | |]; try discriminate. apply eqb_prop in T. subst x.
      exists []. split; [reflexivity|]. split; [constructor|]. intros r. reflexivity.
  Qed.

  Lemma rt_fields Fs : forall fs pre_fs pre suf, Fs = pre_fs ++ fs -> length pre = length pre_fs ->
    (forall i k, nth_error Fs i = Some k -> field_wf s Fs i k = true) ->
    wt_fields s wt_rec fs suf (pre ++ suf) = true ->
    exists bs, enc_fields s enc_rec fs suf (pre ++ suf) = Ok bs /\ bytes_ok bs /\
               forall r, dec_fields s dec_rec fs pre (bs ++ r) = Ok (pre ++ suf, r).
  Proof.
    induction fs as [|k fs IH]; intros pre_fs pre suf EF Hl W T.
    - destruct suf; [|discriminate]. exists []. split; [reflexivity|]. split; [constructor|]. intros r. rewrite app_nil_r. reflexivity.
    - destruct suf as [|v suf]; [discriminate|]. cbn [wt_fields] in T. apply andb_true_iff in T. destruct T as [Tv Ts].
      assert (Wk : field_wf s Fs (length pre) k = true).
      { apply W. rewrite EF, Hl, nth_error_app2 by lia. rewrite Nat.sub_diag. reflexivity. }
      destruct (rt_field Fs (length pre) k v pre (v :: suf) Wk eq_refl Tv) as [h [Eh [OKh Dh]]].
      assert (EA : pre ++ v :: suf = (pre ++ [v]) ++ suf) by (rewrite <- app_assoc; reflexivity).
      destruct (IH (pre_fs ++ [k]) (pre ++ [v]) suf) as [t [Et [OKt Dt]]].
      { rewrite EF, <- app_assoc. reflexivity. }
      { rewrite !app_length, Hl. reflexivity. }
      { exact W. }
      { rewrite <- EA. exact Ts. }
      exists (h ++ t). cbn [enc_fields]. rewrite Eh. cbn [bind]. rewrite EA, Et. cbn [bind]. split; [reflexivity|].
      split; [apply bytes_ok_app; split; assumption|].
      intros r. cbn [dec_fields]. rewrite <- app_assoc, Dh, Dt. reflexivity.
  Qed.

  Lemma set_flags_id all : forall fs suf, Forall bit_ok fs -> wt_fields s wt_rec fs suf all = true ->
    set_flags s zero_rec fs suf all = all.
  Proof.
    induction fs as [|k fs IH]; intros suf B T; [reflexivity|].
    destruct suf as [|v suf]; [reflexivity|]. cbn [wt_fields] in T. apply andb_true_iff in T. destruct T as [Tv Ts].
    inversion B as [|? ? Bk Bfs]; subst. cbn [set_flags].
    assert (E : match k with
                | KCond ff bit sh b => if zero_shape s zero_rec sh b v then all else upd_flag all ff bit
                | KCondTrue ff bit => match v with VBool true => upd_flag all ff bit | _ => all end
                | _ => all
                end = all).
    { destruct k as [|sh b|ff bit sh b|ff bit]; cbn [wt_field bit_ok] in *; try reflexivity.
      - destruct (has_bit (flag_at all ff) bit) eqn:Hh.
        + destruct (zero_shape s zero_rec sh b v); [reflexivity|apply upd_flag_id; assumption].
        + rewrite (is_absent_eq sh b v Tv), absent_zero. reflexivity.
      - destruct v as [| |x| | |]; try reflexivity. apply eqb_prop in Tv. destruct x; [|reflexivity].
        apply upd_flag_id; [assumption|symmetry; exact Tv]. }
    rewrite E. apply IH; assumption.
  Qed.
End LevelD.

Lemma ctor_wf_bits s c : ctor_wf s c = true -> Forall bit_ok (c_fields c).
Proof.
  intros H. apply Forall_forall. intros k I. destruct (In_nth_error _ _ I) as [i E].
  apply (field_wf_bit s (c_fields c) i k), (ctor_wf_field s c H i k E).
Qed.

(* EncodeBare / DecodeBare of any constructor of a well-formed schema *)
Theorem enc_dec_obj s : schema_wf s = true ->
  forall f c vs, ctor_wf s c = true -> wt_obj s f c vs = true ->
  exists bs, enc_obj s f c vs = Ok bs /\ bytes_ok bs /\
             forall f' r, (f <= f')%nat -> dec_obj s f' c (bs ++ r) = Ok (VObj (c_id c) vs, r).
Proof.
  intros Hs. induction f as [|f IH]; intros c vs W T; [discriminate|].
  cbn [wt_obj] in T. cbn [enc_obj].
  rewrite (set_flags_id s (wt_obj s f) (zero_obj s f) vs (c_fields c) vs (ctor_wf_bits s c W) T).
  assert (Hlev : forall f', (f <= f')%nat ->
            exists bs, enc_fields s (enc_obj s f) (c_fields c) vs vs = Ok bs /\ bytes_ok bs /\
                       forall r, dec_fields s (dec_obj s f') (c_fields c) [] (bs ++ r) = Ok (vs, r)).
  { intros f' Hf.
    apply (rt_fields s Hs (wt_obj s f) (enc_obj s f) (dec_obj s f')) with (Fs := c_fields c) (pre_fs := []) (pre := []) (suf := vs);
      [|intros c' vs' bs'; apply enc_obj_len4|reflexivity|reflexivity|apply (ctor_wf_field s c W)|exact T].
    intros c' vs' W' T'. destruct (IH c' vs' W' T') as [bs [E [OKb D]]]. exists bs. split; [exact E|]. split; [exact OKb|].
    intros r. apply D, Hf. }
  destruct (Hlev f (le_n f)) as [bs [E [OKb _]]]. exists bs. split; [exact E|]. split; [exact OKb|].
  intros f' r Hf. destruct f' as [|f']; [lia|]. cbn [dec_obj].
  destruct (Hlev f' ltac:(lia)) as [bs' [E' [_ D']]]. rewrite E in E'. apply ok_inj in E'. subst bs'.
  rewrite D'. reflexivity.
Qed.

(* the same through Encode/Decode and Decode<Class>, with the fuel the Go code would need *)
Theorem roundtrip_fuel s t fuel v : schema_wf s = true -> wt s fuel t v = true ->
  exists bs, encode_fuel s fuel t v = Ok bs /\ bytes_ok bs /\
             forall f' r, (fuel <= f')%nat -> decode s t f' (bs ++ r) = Ok (v, r).
Proof.
  intros Hs T. destruct v as [| | | | |id fs]; try discriminate. cbn [wt] in T.
  destruct t as [ci|ci|cls]; cbn [encode_fuel decode].
  - destruct (ctor_at s ci) as [c|] eqn:EC; [|discriminate]. apply andb_true_iff in T. destruct T as [Ti T].
    rewrite Ti. apply Z.eqb_eq in Ti. subst id. pose proof (wf_ctor_at s ci c Hs EC) as W.
    destruct (enc_dec_obj s Hs fuel c fs W T) as [body [E [OKb D]]].
    exists (encode_uint32 (c_id c) ++ body). unfold enc_boxed. rewrite E. cbn [bind]. split; [reflexivity|].
    split; [apply bytes_ok_app; split; [apply le_enc_ok|assumption]|].
    intros f' r Hf. unfold dec_boxed. rewrite <- app_assoc, consume_id_app by (apply (ctor_wf_id s c W)). apply D, Hf.
  - destruct (ctor_at s ci) as [c|] eqn:EC; [|discriminate]. apply andb_true_iff in T. destruct T as [Ti T].
    rewrite Ti. apply Z.eqb_eq in Ti. subst id. pose proof (wf_ctor_at s ci c Hs EC) as W.
    destruct (enc_dec_obj s Hs fuel c fs W T) as [body [E [OKb D]]]. exists body. auto.
  - destruct (class_find s cls id) as [c|] eqn:EC; [|discriminate].
    pose proof (wf_class_find s cls id c Hs EC) as W. pose proof (wf_class_find_id s cls id c Hs EC) as Eid.
    destruct (enc_dec_obj s Hs fuel c fs W T) as [body [E [OKb D]]].
    exists (encode_uint32 (c_id c) ++ body). unfold enc_boxed. rewrite E. cbn [bind]. split; [reflexivity|].
    split; [apply bytes_ok_app; split; [apply le_enc_ok|assumption]|].
    intros f' r Hf. unfold dec_class, dec_boxed. rewrite <- app_assoc. unfold encode_uint32 at 1.
    rewrite peek_id_app by (rewrite len_le_enc; reflexivity).
    rewrite le_dec_enc by (change (256 ^ Z.of_nat 4) with (2 ^ 32); apply (ctor_wf_id s c W)).
    rewrite Eid, EC. fold (encode_uint32 (c_id c)). rewrite <- Eid at 1.
    rewrite consume_id_app by (apply (ctor_wf_id s c W)). rewrite (D f' r Hf), Eid. reflexivity.
Qed.

Theorem roundtrip_std s t fuel v : schema_wf s = true -> wt s fuel t v = true ->
  exists bs, encode_fuel s fuel t v = Ok bs /\
             forall r, bytes_ok r -> decode s t (std_fuel (bs ++ r)) (bs ++ r) = Ok (v, r).
Proof.
  intros Hs T. destruct (roundtrip_fuel s t fuel v Hs T) as [bs [E [OKb D]]]. exists bs. split; [exact E|].
  intros r OKr. set (b := bs ++ r). assert (OK : bytes_ok b) by (apply bytes_ok_app; split; assumption).
  pose proof (D (Nat.max fuel (std_fuel b)) r (Nat.le_max_l _ _)) as D1. fold b in D1.
  pose proof (decode_fuel s t (std_fuel b) b Hs OK (std_fuel_enough b)) as NF.
  destruct (decode_le s t (std_fuel b) (Nat.max fuel (std_fuel b)) b (Nat.le_max_r _ _)) as [E'|E'].
  - exfalso. apply NF, E'.
  - rewrite E'. exact D1.
Qed.

(* C21_roundtrip as stated in Prop/C21.v *)
Theorem roundtrip_full s t fuel v : schema_wf s = true -> wt s fuel t v = true ->
  exists bs, encode_fuel s fuel t v = Ok bs /\ bytes_ok bs /\
    forall r, bytes_ok r ->
      decode s t (std_fuel (bs ++ r)) (bs ++ r) = Ok (v, r) /\
      (forall v' r', decode s t (std_fuel (bs ++ r)) (bs ++ r) = Ok (v', r') -> encode_fuel s fuel t v' = Ok bs).
Proof.
  intros Hs T. destruct (roundtrip_fuel s t fuel v Hs T) as [bs [E [OKb _]]].
  destruct (roundtrip_std s t fuel v Hs T) as [bs' [E' D]]. rewrite E in E'. apply ok_inj in E'. subst bs'.
  exists bs. split; [exact E|]. split; [exact OKb|].
  intros r OKr. split; [apply D, OKr|]. intros v' r' H. rewrite (D r OKr) in H. apply ok_inj in H. inversion H; subst. exact E.
Qed.

(* C21_total as stated in Prop/C21.v *)
Theorem total_full s t b : bytes_ok b ->
  (forall fuel, decode s t fuel b <> Panic) /\
  (forall fuel v r, decode s t fuel b = Ok (v, r) -> bytes_ok r /\ len r <= len b) /\
  (schema_wf s = true -> decode s t (std_fuel b) b <> Err EOutOfFuel) /\
  (forall f f', (f <= f')%nat -> decode s t f b = Err EOutOfFuel \/ decode s t f b = decode s t f' b).
Proof.
  intros OK. split; [intros fuel; apply decode_no_panic, OK|].
  split; [intros fuel v r; apply decode_rest, OK|].
  split; [intros Hs; apply (decode_fuel s t (std_fuel b) b Hs OK (std_fuel_enough b))|].
  intros f f' Hf. apply (decode_le s t f f' b Hf).
Qed.
Lemma std_fuel_depth b : Z.of_nat (std_fuel b) = len b / 4 + 2.
Proof.
  unfold std_fuel, len. rewrite !Nat2Z.inj_succ, Nat2Z.inj_div. change (Z.of_nat 4) with 4. lia.
Qed.
