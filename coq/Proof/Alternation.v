(* Proofs for Model/Alternation.v: every schedule of the exchange over FIFO pipes is the strictly
   alternating one. *)
From Coq Require Import List Bool Arith Lia.
From TD Require Import Model.Alternation.
Import ListNotations.

Lemma ast_eqb_eq a b : ast_eqb a b = true -> a = b.
Proof.
  destruct a, b; unfold ast_eqb; cbn. intros H.
  repeat (apply andb_true_iff in H as [H ?]).
  repeat match goal with X : (_ =? _) = true |- _ => apply Nat.eqb_eq in X end. subst. reflexivity.
Qed.

(* finite facts, by computation over the 13 states of the alternating run *)
Lemma set_closed : forallb (fun s => forallb (fun e => if enabled s e then in_set (anext s e) else true) all_ev) reach_set = true.
Proof. vm_compute. reflexivity. Qed.
Lemma set_one_enabled : forallb (fun s => length (enabled_events s) <=? 1) reach_set = true.
Proof. vm_compute. reflexivity. Qed.
Lemma init_in_set : in_set ainit = true.
Proof. vm_compute. reflexivity. Qed.

Lemma in_set_In s : in_set s = true -> In s reach_set.
Proof.
  unfold in_set. rewrite existsb_exists. intros (x & Hx & He). apply ast_eqb_eq in He. subst. exact Hx.
Qed.

Lemma arun_in_set : forall tr s s', in_set s = true -> arun s tr = Some s' -> in_set s' = true.
Proof.
  induction tr as [|e t IH]; intros s s' Hs H; cbn [arun] in H.
  - injection H as <-. exact Hs.
  - destruct (enabled s e) eqn:E; [|discriminate].
    apply IH with (s := anext s e); [|exact H].
    pose proof set_closed as C. rewrite forallb_forall in C.
    specialize (C s (in_set_In s Hs)). rewrite forallb_forall in C.
    assert (Hin : In e all_ev) by (destruct e; cbn; tauto).
    specialize (C e Hin). rewrite E in C. exact C.
Qed.

(* in every state reachable by ANY schedule at most one action (of either side) is enabled *)
Theorem at_most_one_enabled tr s : arun ainit tr = Some s -> (length (enabled_events s) <= 1)%nat.
Proof.
  intros H. pose proof (arun_in_set tr ainit s init_in_set H) as Hs.
  pose proof set_one_enabled as O. rewrite forallb_forall in O.
  apply Nat.leb_le. apply O. apply in_set_In. exact Hs.
Qed.

Lemma enabled_in_filter s e : enabled s e = true -> In e (enabled_events s).
Proof. intros H. unfold enabled_events. apply filter_In. split; [destruct e; cbn; tauto|exact H]. Qed.

(* hence schedules are unique: two schedules of the same length coincide *)
Theorem schedule_unique : forall tr1 tr2 s1 s2,
  length tr1 = length tr2 -> arun ainit tr1 = Some s1 -> arun ainit tr2 = Some s2 -> tr1 = tr2.
Proof.
  assert (G : forall tr1 tr2 pre s s1 s2, arun ainit pre = Some s -> length tr1 = length tr2 ->
              arun s tr1 = Some s1 -> arun s tr2 = Some s2 -> tr1 = tr2).
  { induction tr1 as [|e1 t1 IH]; intros [|e2 t2] pre s s1 s2 Hpre Hl H1 H2; try discriminate; [reflexivity|].
    cbn [arun] in H1, H2.
    destruct (enabled s e1) eqn:E1; [|discriminate]. destruct (enabled s e2) eqn:E2; [|discriminate].
    assert (e1 = e2).
    { pose proof (at_most_one_enabled pre s Hpre) as L.
      pose proof (enabled_in_filter s e1 E1) as I1. pose proof (enabled_in_filter s e2 E2) as I2.
      destruct (enabled_events s) as [|x [|y l]]; cbn in *; try lia; try tauto.
      destruct I1 as [<-|[]]. destruct I2 as [<-|[]]. reflexivity. }
    subst e2. f_equal.
    apply (IH t2 (pre ++ [e1]) (anext s e1) s1 s2); auto.
    clear - Hpre E1. revert Hpre. generalize ainit. induction pre as [|x pre IHp]; intros a Ha; cbn [arun app] in *.
    - injection Ha as ->. rewrite E1. reflexivity.
    - destruct (enabled a x); [|discriminate]. apply IHp. exact Ha. }
  intros tr1 tr2 s1 s2 Hl H1 H2. exact (G tr1 tr2 [] ainit s1 s2 eq_refl Hl H1 H2).
Qed.

(* the alternating schedule is one, runs to completion, and nothing is enabled afterwards *)
Theorem the_schedule_runs :
  exists s, arun ainit the_schedule = Some s /\ cpc s = prog_len /\ spc s = prog_len /\ enabled_events s = [].
Proof. eexists. split; [vm_compute; reflexivity|]. repeat split. Qed.
