(* Proofs for Model/ExchangeWire.v: the byte level refines the record level. *)
From Coq Require Import ZArith List Bool Lia.
From TD Require Import Lib.GoSem Lib.GoSlice Lib.Bytes Lib.RunLib Lib.BigIntSem Model.TlPrim Model.TlSchema Gen.SchemaMt Proof.TlSchema
                       Model.ProtoMsg Proof.ProtoMsg Gen.DhCheck Model.Exchange Proof.Exchange Model.ExchangeWire.
Import ListNotations.
Open Scope Z_scope.

(* the constructor positions used by the model are the constructors of mt.tl:
   resPQ#05162463 server_DH_params_fail#79cb045d server_DH_params_ok#d0e8075c dh_gen_ok#3bcbf734
   dh_gen_retry#46dc1fb9 dh_gen_fail#a69dae02 req_pq_multi#be7e8ef1 req_DH_params#d712e4be
   set_client_DH_params#f5045f1f *)
Lemma wire_ctor_ids :
  map id_of [ci_respq; ci_sdh_fail; ci_sdh_ok; ci_gen_ok; ci_gen_retry; ci_gen_fail; ci_req_pq_multi; ci_req_dh; ci_set_dh]
  = [0x05162463; 0x79cb045d; 0xd0e8075c; 0x3bcbf734; 0x46dc1fb9; 0xa69dae02; 0xbe7e8ef1; 0xd712e4be; 0xf5045f1f]
  /\ cls_of ci_sdh_fail = cls_of ci_sdh_ok /\ cls_of ci_gen_retry = cls_of ci_gen_ok /\ cls_of ci_gen_fail = cls_of ci_gen_ok.
Proof. vm_compute. repeat split. Qed.

Lemma mt_wf : schema_wf mt_schema = true.
Proof. vm_compute. reflexivity. Qed.

(* big.Int.SetBytes (big.Int.Bytes z) = z *)
Lemma be_val_be_min z : 0 <= z -> be_val (be_min z) = z.
Proof.
  intros Hz. unfold be_val, be_min, be_enc. rewrite rev_involutive.
  apply le_dec_enc. split; [exact Hz|].
  set (n := Z.to_nat ((bitlen z + 7) / 8)).
  assert (Hbl : 0 <= bitlen z).
  { destruct z; cbn [bitlen]; try lia; pose proof (Z.log2_nonneg (Z.pos p)); lia. }
  assert (Hlt : z < 2 ^ bitlen z).
  { destruct z as [|p|p]; cbn [bitlen]; [cbn; lia| |lia].
    pose proof (Z.log2_spec (Z.pos p) ltac:(lia)) as [_ U]. rewrite <- Z.add_1_r in U. exact U. }
  assert (H8 : bitlen z <= 8 * Z.of_nat n).
  { unfold n. rewrite Z2Nat.id by (apply Z.div_pos; lia).
    pose proof (Z.div_mod (bitlen z + 7) 8 ltac:(lia)). pose proof (Z.mod_pos_bound (bitlen z + 7) 8 ltac:(lia)). lia. }
  replace 256 with (2 ^ 8) by reflexivity. rewrite <- Z.pow_mul_r by lia.
  eapply Z.lt_le_trans; [exact Hlt|]. apply Z.pow_le_mono_r; lia.
Qed.

Lemma of_vbytes_vbytes b : of_vbytes (vbytes b) = Some b.
Proof. destruct b; reflexivity. Qed.
Lemma of_vlongs_vlongs l : of_vlongs (vlongs l) = Some l.
Proof.
  destruct l as [|x l]; [reflexivity|]. unfold vlongs, of_vlongs. f_equal.
  rewrite map_map. cbn [map]. f_equal. induction l; cbn; [reflexivity|]. f_equal. assumption.
Qed.

Lemma of_v_respq_v m : 0 <= rp_pq m -> of_v_respq (v_respq m) = Some m.
Proof.
  intros H. unfold v_respq, of_v_respq. rewrite of_vbytes_vbytes, of_vlongs_vlongs, be_val_be_min by exact H.
  destruct m; reflexivity.
Qed.
Lemma of_v_sdh_ok n sn e : of_v_sdh (v_sdh_ok n sn e) = SdhOk _ n sn e.
Proof. unfold v_sdh_ok, of_v_sdh. rewrite Z.eqb_refl, of_vbytes_vbytes. reflexivity. Qed.
Lemma of_v_gen_ok n sn h : of_v_gen (v_gen_ok n sn h) = GenOk n sn h.
Proof. unfold v_gen_ok, of_v_gen. rewrite Z.eqb_refl. reflexivity. Qed.

(* decode (encode v) = v on TL bodies, from C21's generic round trip on the generated mt schema *)
Theorem body_roundtrip t v : wt mt_schema (depth v) t v = true ->
  exists bs, body_of t v = Ok bs /\ bytes_ok bs /\ value_of_body t bs = Some v.
Proof.
  intros W. destruct (roundtrip_full mt_schema t (depth v) v mt_wf W) as (bs & E & OKb & D).
  exists bs. split; [exact E|]. split; [exact OKb|].
  destruct (D [] ltac:(constructor)) as [D1 _]. rewrite app_nil_r in D1.
  unfold value_of_body. rewrite D1. reflexivity.
Qed.

(* ... and through the unencrypted_message framing *)
Theorem wire_roundtrip id t v : wt mt_schema (depth v) t v = true -> i64 id ->
  (forall bs, body_of t v = Ok bs -> len bs < 2 ^ 31) ->
  exists w, wire_of id t v = Ok w /\ value_of_wire t w = Some v.
Proof.
  intros W Hid Hlen. destruct (body_roundtrip t v W) as (bs & E & _ & D).
  exists (encode_unencrypted id bs). unfold wire_of, value_of_wire. rewrite E. split; [reflexivity|].
  pose proof (unencrypted_roundtrip id bs [] Hid (Hlen bs E)) as U. rewrite app_nil_r in U. rewrite U. exact D.
Qed.

Section BytesClientProofs.
  Variables pubkey cipher1 cipher3 : Type.
  Variable fp : pubkey -> Z.
  Variable rsa_enc : pubkey -> pq_inner -> cipher1.
  Variable ans_dec : nonce -> nonce -> list Z -> option sdh_inner.
  Variable cin_enc : nonce -> nonce -> cdh_inner -> cipher3.
  Variable powmod : Z -> Z -> Z -> Z.
  Variable prime : Z -> bool.
  Variable factor : Z -> option (Z * Z).
  Variable nonce_hash1 : nonce -> list Z -> list Z.
  Variable key_id : list Z -> list Z.
  Notation crun := (client_run pubkey cipher1 (list Z) cipher3 fp rsa_enc ans_dec cin_enc powmod prime factor nonce_hash1 key_id).
  Notation crunb := (client_run_bodies pubkey cipher1 cipher3 fp rsa_enc ans_dec cin_enc powmod prime factor nonce_hash1 key_id).

  (* refinement: on the encodings of (well-typed) records the byte-level client IS the record-level client *)
  Theorem bodies_refine cf r m2 n5 sn5 e5 n7 sn7 h7 b2 b5 b7 :
    0 <= rp_pq m2 ->
    wt mt_schema (depth (v_respq m2)) (TBoxed ci_respq) (v_respq m2) = true ->
    wt mt_schema (depth (v_sdh_ok n5 sn5 e5)) (TClass (cls_of ci_sdh_ok)) (v_sdh_ok n5 sn5 e5) = true ->
    wt mt_schema (depth (v_gen_ok n7 sn7 h7)) (TClass (cls_of ci_gen_ok)) (v_gen_ok n7 sn7 h7) = true ->
    body_of (TBoxed ci_respq) (v_respq m2) = Ok b2 ->
    body_of (TClass (cls_of ci_sdh_ok)) (v_sdh_ok n5 sn5 e5) = Ok b5 ->
    body_of (TClass (cls_of ci_gen_ok)) (v_gen_ok n7 sn7 h7) = Ok b7 ->
    crunb cf r b2 b5 b7 = crun cf r m2 (SdhOk _ n5 sn5 e5) (GenOk n7 sn7 h7).
  Proof.
    intros Hpq W2 W5 W7 E2 E5 E7.
    destruct (body_roundtrip _ _ W2) as (x2 & X2 & _ & D2). rewrite E2 in X2. injection X2 as <-.
    destruct (body_roundtrip _ _ W5) as (x5 & X5 & _ & D5). rewrite E5 in X5. injection X5 as <-.
    destruct (body_roundtrip _ _ W7) as (x7 & X7 & _ & D7). rewrite E7 in X7. injection X7 as <-.
    unfold client_run_bodies. rewrite D2, D5, D7. cbn [option_map].
    rewrite (of_v_respq_v m2 Hpq), of_v_sdh_ok, of_v_gen_ok. reflexivity.
  Qed.

  (* C10 lifted to bytes: if the client completes on three byte strings, they decode (as TL of the
     mt schema) to records that passed every check *)
  Theorem accept_only_if_bodies cf r b2 b5 b7 res :
    crunb cf r b2 b5 b7 = Ok res ->
    exists v2 m2 m5 m7,
      value_of_body (TBoxed ci_respq) b2 = Some v2 /\ of_v_respq v2 = Some m2 /\
      m5 = match value_of_body (TClass (cls_of ci_sdh_ok)) b5 with Some v => of_v_sdh v | None => SdhOther _ end /\
      m7 = match value_of_body (TClass (cls_of ci_gen_ok)) b7 with Some v => of_v_gen v | None => GenOther end /\
      accepted_checks pubkey (list Z) fp ans_dec powmod prime factor nonce_hash1 key_id cf r m2 m5 m7 res.
  Proof.
    unfold client_run_bodies.
    destruct (value_of_body (TBoxed ci_respq) b2) as [v2|] eqn:D2; cbn [option_map]; [|discriminate].
    destruct (of_v_respq v2) as [m2|] eqn:O2; [|discriminate].
    intros H. exists v2, m2. eexists. eexists. repeat split; try reflexivity; try exact O2.
    eapply accept_only_if. exact H.
  Qed.
End BytesClientProofs.
