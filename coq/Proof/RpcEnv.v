(* Environment-side facts about the rpc.Engine model: msg ids are pairwise distinct (explicit
   guard of CEntered), an acknowledgement that the environment delivered for a waiting request
   closes that request's channel wherever the id stands in the NotifyAcks vector, flags are
   monotone, and every error class has its cause (cancel / ForceClose / Close). *)
From Coq Require Import ZArith List Bool Lia.
From TD Require Import Gen.RpcClass Model.Rpc Proof.Rpc.
Import ListNotations.
Open Scope Z_scope.

#[local] Arguments Z.add : simpl never.
#[local] Arguments Z.eqb : simpl never.
#[local] Arguments Z.geb : simpl never.

Definition waiting_pc (p : cpc) : bool :=
  match p with PAckWait | PSentGo | PSelect | PSelClosed | PSelTimer | PTimerGo | PExit _ => true | _ => false end.
Definition closed_class (p : cpc) : bool :=
  match p with
  | PSelClosed | PWaitClosed => true
  | _ => match pc_ret p, pc_lres p with
         | Some RClosedRetryable, _ | Some RClosedAcked, _ => true
         | _, Some LClosedUnacked => true
         | _, _ => false
         end
  end.

(* what any step may do to the flags and the identity of a call *)
Definition soft (k k' : call) : Prop :=
  (ackclosed k = true -> ackclosed k' = true) /\ (ucancel k = true -> ucancel k' = true) /\
  (rcancel k = true -> rcancel k' = true) /\ (entered k = true -> entered k' = true /\ mid k' = mid k).
Definition hard (k k' : call) : Prop := pc k' = pc k /\ mid k' = mid k /\ entered k' = entered k.

Lemma soft_refl : forall k, soft k k.
Proof. unfold soft; intuition. Qed.

Ltac cdes H := match type of H with caller _ _ _ _ _ _ ?e = _ => destruct e; cbn [caller] in H; try discriminate H; brk H; inversion H; subst; clear H end.

Lemma caller_soft : forall mx fc ec af c k e k' g,
  caller mx fc ec af c k e = Some (k', g) -> LI mx k -> soft k k' /\ ackclosed k' = ackclosed k.
Proof.
  intros mx fc ec af c k e k' g H HL. unfold soft.
  assert (L : pc k = PIdle -> entered k = false) by apply HL.
  cdes H; cbn; repeat split; auto; try (intros X; discriminate X);
  try solve [exfalso; pose proof (L eq_refl); congruence].
Qed.

Lemma caller_enter : forall mx fc ec af c k e k' g,
  caller mx fc ec af c k e = Some (k', g) -> LI mx k ->
  match e with
  | CEntered _ m _ _ => entered k = false /\ entered k' = true /\ mid k' = m /\ waiting_pc (pc k') = false /\ g = GNone
  | _ => entered k' = entered k /\ mid k' = mid k
  end.
Proof.
  intros mx fc ec af c k e k' g H HL.
  assert (L : pc k = PIdle -> entered k = false) by apply HL.
  cdes H; cbn; repeat split; auto; try solve [apply L; reflexivity].
Qed.

Lemma caller_ackeff : forall mx fc ec af c k e k' g,
  caller mx fc ec af c k e = Some (k', g) -> LI mx k ->
  match g with
  | GAck m o => m = mid k /\ entered k = true /\
                ((o = Some c /\ af = true) \/ (o = None /\ waiting_pc (pc k') = false))
  | _ => waiting_pc (pc k') = true -> waiting_pc (pc k) = true
  end.
Proof.
  intros mx fc ec af c k e k' g H HL.
  assert (E : pre_entered (pc k) = false -> entered k = true).
  { intros P. destruct (entered k) eqn:X; auto. rewrite (li_entered _ _ HL X) in P. discriminate. }
  cdes H; cbn; auto; try discriminate; repeat split; auto; try (apply E; match goal with X : pc k = _ |- _ => rewrite X end; reflexivity).
Qed.

Lemma caller_closed : forall mx fc ec af c k e k' g,
  caller mx fc ec af c k e = Some (k', g) -> LI mx k ->
  (closed_class (pc k) = true -> fc = true) -> (pc_ret (pc k) = Some RRejected -> ec = true) ->
  (closed_class (pc k') = true -> fc = true) /\ (pc_ret (pc k') = Some RRejected -> ec = true).
Proof.
  intros mx fc ec af c k e k' g H HL Hc Hr.
  pose proof (li_resok _ _ HL) as RO.
  cdes H; repeat match goal with E : pc k = _ |- _ => rewrite E in *; clear E end; cbn in *; split; intros X;
  try discriminate X; auto;
  try (destruct (res k); cbn in *; discriminate);
  try (destruct r; cbn in *; try discriminate; auto; destruct (res k); cbn in *; discriminate);
  try (rewrite !andb_true_iff in *; tauto).
Qed.

Lemma hs_refl : forall k, hard k k /\ soft k k.
Proof. intros; unfold hard; auto using soft_refl. Qed.

Lemma do_acks_facts : forall l cs am cs' am' cl,
  do_acks cs am l = (cs', am', cl) ->
  (forall c, hard (cs c) (cs' c) /\ soft (cs c) (cs' c)) /\
  (forall m, am' m = am m \/ (am' m = None /\ exists c, am m = Some c /\ ackclosed (cs' c) = true)) /\
  (forall m c, In m l -> am m = Some c -> ackclosed (cs' c) = true).
Proof.
  induction l as [|m0 t IH]; intros cs am cs' am' cl H; cbn in H.
  - inversion H; subst. split; [intros; apply hs_refl|]. split; [auto|]. intros m c [].
  - destruct (am m0) as [c0|] eqn:E.
    + destruct (do_acks (upd cs c0 (set_deliv (set_ackclosed (cs c0) true) true)) (upd am m0 None) t) as [[cs1 am1] cl1] eqn:E1.
      inversion H; subst. destruct (IH _ _ _ _ _ E1) as (I1 & I2 & I3).
      assert (C0 : ackclosed (cs' c0) = true).
      { destruct (I1 c0) as [_ (S1 & _)]. apply S1. rewrite upd_eq. reflexivity. }
      split; [|split].
      * intros c. destruct (I1 c) as [(A1 & A2 & A3) (S1 & S2 & S3 & S4)].
        unfold hard, soft, upd in *. destruct (Z.eqb_spec c c0); subst; cbn in *; intuition.
      * intros m. destruct (I2 m) as [A | (A & c & B & C)].
        -- unfold upd in A. destruct (Z.eqb_spec m m0); subst; auto. right. split; auto. exists c0; auto.
        -- unfold upd in B. destruct (Z.eqb_spec m m0); subst; try discriminate. right. split; auto. exists c; auto.
      * intros m c [-> | Hin] Hm.
        -- rewrite E in Hm. inversion Hm; subst. auto.
        -- destruct (Z.eq_dec m m0) as [-> | Hn].
           ++ rewrite E in Hm. inversion Hm; subst. auto.
           ++ apply (I3 m c Hin). rewrite upd_neq; auto.
    + destruct (IH _ _ _ _ _ H) as (I1 & I2 & I3). split; [auto|]. split; [auto|].
      intros m c [-> | Hin] Hm; [congruence | eauto].
Qed.

Lemma noncaller_step : forall s e s', ev_caller e = None -> step s e = Some s' ->
  (forall c, hard (calls s c) (calls s' c) /\ soft (calls s c) (calls s' c)) /\
  used s' = used s /\ (fclosed s = true -> fclosed s' = true) /\ (eclosed s = true -> eclosed s' = true) /\
  match e with XAcks _ _ => True | _ => ackm s' = ackm s end.
Proof.
  intros s e s' Ec H. unfold step in H. rewrite Ec in H.
  destruct e; try discriminate Ec; cbv zeta in H;
  try solve [brk H; inversion H; subst; clear H;
             (split; [intros x; cbn; unfold upd; try destruct (Z.eqb_spec x c); subst; unfold hard, soft; cbn; intuition
                     | cbn; repeat split; auto])].
  (* XAcks *)
  destruct (do_acks (calls s) (ackm s) l) as [[cs am] cl] eqn:Ea.
  destruct (zlist_eqb cl l2); inversion H; subst; clear H.
  destruct (do_acks_facts _ _ _ _ _ _ Ea) as (A1 & _). cbn. split; [exact A1 | repeat split; auto].
Qed.

Lemma used_apply : forall s c k g, used (apply_geff s c k g) = used s.
Proof. intros; destruct g; reflexivity. Qed.

Record AI (s : state) : Prop := mkAI {
  ai_ui : forall c, entered (calls s c) = true -> used s (mid (calls s c)) = true;
  ai_du : forall c c', entered (calls s c) = true -> entered (calls s c') = true ->
                       mid (calls s c) = mid (calls s c') -> c = c';
  ai_ack : forall c, waiting_pc (pc (calls s c)) = true -> ackclosed (calls s c) = false ->
                     ackm s (mid (calls s c)) = Some c;
  ai_cl : forall c, closed_class (pc (calls s c)) = true -> fclosed s = true;
  ai_rej : forall c, pc_ret (pc (calls s c)) = Some RRejected -> eclosed s = true
}.

Lemma AI_init : forall mx, AI (init mx).
Proof. intros; constructor; cbn; intros; try discriminate; auto. Qed.

Lemma waiting_entered : forall mx k, LI mx k -> waiting_pc (pc k) = true -> entered k = true.
Proof.
  intros mx k HL W. destruct (entered k) eqn:E; auto.
  pose proof (li_entered _ _ HL E) as P. destruct (pc k); cbn in *; try discriminate; destruct r; discriminate.
Qed.

Theorem step_AI : forall mx s e s', 1 <= mx -> GI mx s -> AI s -> step s e = Some s' -> AI s'.
Proof.
  intros mx s e s' Hmx HG HA H. pose proof HG as [Gm Gl _ _ _]. destruct HA as [Aui Adu Aack Acl Arej].
  destruct (ev_caller e) as [c0|] eqn:Ec.
  - (* a caller step *)
    pose proof H as H0. unfold step in H. rewrite Ec in H.
    destruct (caller (maxr s) (fclosed s) (eclosed s) (isNone (ackm s (mid (calls s c0)))) c0 (calls s c0) e)
      as [[k' g]|] eqn:Hc; try discriminate H.
    rewrite Gm in Hc. pose proof (Gl c0) as HL0.
    destruct (caller_soft _ _ _ _ _ _ _ _ _ Hc HL0) as [(_ & _ & _ & So) Sa].
    pose proof (caller_enter _ _ _ _ _ _ _ _ _ Hc HL0) as En.
    pose proof (caller_ackeff _ _ _ _ _ _ _ _ _ Hc HL0) as Ae.
    destruct (caller_closed _ _ _ _ _ _ _ _ _ Hc HL0 (Acl c0) (Arej c0)) as [Cc Cr].
    destruct (post_shape _ _ _ _ _ H) as (P1 & P2 & P3 & P4 & P5 & P6 & P7).
    assert (Hcalls : forall x, calls s' x = if Z.eqb x c0 then k' else calls s x).
    { intros x. rewrite P1. apply calls_apply. }
    assert (Hent : forall x, x <> c0 -> calls s' x = calls s x).
    { intros x Hn. rewrite Hcalls. destruct (Z.eqb_spec x c0); congruence. }
    assert (Hk : calls s' c0 = k') by (rewrite Hcalls, Z.eqb_refl; auto).
    assert (Hused : forall m, used s m = true -> used s' m = true).
    { intros m Hm. destruct e; try (inversion H; subst; cbn; rewrite ?used_apply; exact Hm).
      destruct (used s m0); inversion H; subst. cbn. unfold upd. destruct (Z.eqb m m0); auto.
      rewrite used_apply; auto. }
    assert (Hf : fclosed s' = fclosed s) by (rewrite P5; destruct g; reflexivity).
    assert (He : eclosed s' = eclosed s) by (rewrite P6; destruct g; reflexivity).
    (* is it CEntered ? *)
    assert (Cases : (exists m q b, e = CEntered c0 m q b /\ used s m = false /\ used s' m = true) \/
                    (entered k' = entered (calls s c0) /\ mid k' = mid (calls s c0))).
    { destruct e; try (right; exact En); cbn in Ec; inversion Ec; subst.
      left. destruct (used s m) eqn:U; inversion H; subst. exists m, q, b. repeat split; auto.
      cbn. rewrite upd_eq; auto. }
    constructor.
    + (* used *)
      intros c. destruct (Z.eq_dec c c0) as [->|Hn].
      * rewrite Hk. destruct Cases as [(m & q & b & -> & U1 & U2) | (E1 & E2)].
        -- destruct En as (_ & _ & Em & _). rewrite Em. auto.
        -- rewrite E1, E2. intros X. auto.
      * rewrite Hent; auto.
    + (* distinct *)
      intros c c' E1 E2 Em. destruct (Z.eq_dec c c') as [|Hne]; auto. exfalso.
      assert (G : forall x y, x <> y -> x = c0 -> entered (calls s' x) = true -> entered (calls s' y) = true ->
                              mid (calls s' x) = mid (calls s' y) -> False).
      { intros x y Hxy -> X1 X2 Xm. rewrite Hk in X1, Xm. rewrite (Hent y) in X2, Xm by auto.
        destruct Cases as [(m & q & b & -> & U1 & U2) | (F1 & F2)].
        - destruct En as (_ & _ & Emid & _). rewrite Emid in Xm. pose proof (Aui y X2). congruence.
        - rewrite F1 in X1. rewrite F2 in Xm. apply Hxy. apply Adu; auto. }
      destruct (Z.eq_dec c c0); [eapply (G c c'); eauto|].
      destruct (Z.eq_dec c' c0); [eapply (G c' c); eauto|].
      rewrite !Hent in * by auto. eauto.
    + (* ack map *)
      intros c W A. rewrite P4.
      destruct (Z.eq_dec c c0) as [->|Hn].
      * rewrite Hk in *. rewrite Sa in A.
        destruct g as [|m0 h|m0 o]; cbn [apply_geff ackm].
        -- destruct Cases as [(m & q & b & -> & _) | (_ & F2)].
           ++ destruct En as (_ & _ & _ & Wn & _). congruence.
           ++ rewrite F2. auto.
        -- destruct Cases as [(m & q & b & -> & _) | (_ & F2)].
           ++ destruct En as (_ & _ & _ & Wn & _). congruence.
           ++ rewrite F2. auto.
        -- destruct Ae as (-> & Ee & [(-> & _) | (-> & Wn)]); [|congruence].
           destruct Cases as [(m & q & b & -> & _) | (_ & F2)]; [destruct En as (_ & _ & _ & _ & Eg); discriminate Eg|].
           rewrite F2, upd_eq. auto.
      * rewrite Hent in * by auto.
        destruct g as [|m0 h|m0 o]; cbn [apply_geff ackm]; auto.
        destruct Ae as (-> & Ee & _). rewrite upd_neq; auto.
        intros Em. apply Hn. apply Adu; auto. eapply waiting_entered; eauto.
    + intros c. rewrite Hf. destruct (Z.eq_dec c c0) as [->|Hn]; [rewrite Hk; auto | rewrite Hent; auto; apply Acl].
    + intros c. rewrite He. destruct (Z.eq_dec c c0) as [->|Hn]; [rewrite Hk; auto | rewrite Hent; auto; apply Arej].
  - (* delivery / environment step *)
    destruct (noncaller_step _ _ _ Ec H) as (N1 & N2 & N3 & N4 & N5).
    assert (Hh : forall c, pc (calls s' c) = pc (calls s c) /\ mid (calls s' c) = mid (calls s c) /\
                           entered (calls s' c) = entered (calls s c)) by (intros c; apply N1).
    constructor.
    + intros c. destruct (Hh c) as (_ & -> & ->). rewrite N2. auto.
    + intros c c'. destruct (Hh c) as (_ & -> & ->). destruct (Hh c') as (_ & -> & ->). auto.
    + intros c. destruct (Hh c) as (-> & -> & _). intros W A.
      assert (A0 : ackclosed (calls s c) = false).
      { destruct (ackclosed (calls s c)) eqn:X; auto. destruct (N1 c) as [_ (S1 & _)]. rewrite (S1 X) in A. discriminate. }
      pose proof (Aack c W A0) as Hm.
      destruct e; try discriminate Ec; try (rewrite N5; auto).
      (* XAcks *)
      unfold step in H. cbn [ev_caller] in H.
      destruct (do_acks (calls s) (ackm s) l) as [[cs am] cl] eqn:Ea.
      destruct (zlist_eqb cl l2); inversion H; subst; clear H. cbn in *.
      destruct (do_acks_facts _ _ _ _ _ _ Ea) as (_ & F2 & _).
      destruct (F2 (mid (calls s c))) as [F | (F & c1 & F3 & F4)]; [congruence|].
      rewrite Hm in F3. inversion F3; subst. congruence.
    + intros c. destruct (Hh c) as (-> & _). intros X. apply N3. eauto.
    + intros c. destruct (Hh c) as (-> & _). intros X. apply N4. eauto.
Qed.

Theorem run_AI : forall mx tr s s', 1 <= mx -> GI mx s -> AI s -> run s tr = Some s' -> AI s'.
Proof.
  induction tr as [|e t IH]; intros s s' Hmx HG HA H; cbn in H.
  - inversion H; subst; auto.
  - destruct (step s e) as [s1|] eqn:E; try discriminate.
    apply (IH s1 s' Hmx); auto; [eapply step_GI | eapply step_AI]; eauto.
Qed.

Lemma reach_AI : forall mx s, 1 <= mx -> reach mx s -> AI s.
Proof. intros mx s Hmx [tr H]. eapply run_AI; eauto using GI_init, AI_init. Qed.

(* ---------- monotone flags along any run ---------- *)
Lemma step_soft : forall mx s e s' c, 1 <= mx -> GI mx s -> step s e = Some s' -> soft (calls s c) (calls s' c).
Proof.
  intros mx s e s' c Hmx HG H. pose proof HG as [Gm Gl _ _ _].
  destruct (ev_caller e) as [c0|] eqn:Ec.
  - pose proof H as H0. unfold step in H. rewrite Ec in H.
    destruct (caller (maxr s) (fclosed s) (eclosed s) (isNone (ackm s (mid (calls s c0)))) c0 (calls s c0) e)
      as [[k' g]|] eqn:Hc; try discriminate H.
    rewrite Gm in Hc. destruct (post_shape _ _ _ _ _ H) as (P1 & _). rewrite P1, calls_apply.
    destruct (Z.eqb_spec c c0); subst; [|apply soft_refl].
    apply (caller_soft _ _ _ _ _ _ _ _ _ Hc (Gl c0)).
  - apply (noncaller_step _ _ _ Ec H).
Qed.

Lemma soft_trans : forall a b c, soft a b -> soft b c -> soft a c.
Proof.
  unfold soft. intros a b c (A1 & A2 & A3 & A4) (B1 & B2 & B3 & B4).
  split; [auto|]. split; [auto|]. split; [auto|].
  intros X. destruct (A4 X) as [E M]. destruct (B4 E). split; congruence.
Qed.

Lemma run_soft : forall mx tr s s' c, 1 <= mx -> GI mx s -> run s tr = Some s' -> soft (calls s c) (calls s' c).
Proof.
  induction tr as [|e t IH]; intros s s' c Hmx HG H; cbn in H.
  - inversion H; subst. apply soft_refl.
  - destruct (step s e) as [s1|] eqn:E; try discriminate.
    eapply soft_trans; [eapply step_soft; eauto | eapply IH; eauto; eapply step_GI; eauto].
Qed.

(* ---------- C25 / C26: acknowledgement as the environment sees it ---------- *)
Lemma acked_blocks : forall s c, ackclosed (calls s c) = true ->
  step s (CTimerGo c) = None /\ step s (CClosedUnacked c) = None.
Proof.
  intros s c A. unfold step. cbn [ev_caller]. cbv zeta. cbn [caller].
  destruct (pc (calls s c)); rewrite ?A; split; reflexivity.
Qed.

Lemma c25_env_ack : forall mx s s' l l2 c, 1 <= mx -> reach mx s ->
  step s (XAcks l l2) = Some s' -> In (mid (calls s c)) l -> waiting_pc (pc (calls s c)) = true ->
  ackclosed (calls s' c) = true /\ deliv (calls s' c) = true /\
  forall tr s2, run s' tr = Some s2 ->
    ackclosed (calls s2 c) = true /\ step s2 (CTimerGo c) = None /\ step s2 (CClosedUnacked c) = None.
Proof.
  intros mx s s' l l2 c Hmx HR H Hin W.
  pose proof (reach_GI _ _ Hmx HR) as HG. pose proof (reach_AI _ _ Hmx HR) as HA.
  assert (HG' : GI mx s') by (eapply step_GI; eauto).
  assert (A' : ackclosed (calls s' c) = true).
  { destruct (ackclosed (calls s c)) eqn:A.
    - destruct (step_soft _ _ _ _ c Hmx HG H) as (S1 & _). auto.
    - pose proof (ai_ack _ HA c W A) as Hm.
      unfold step in H. cbn [ev_caller] in H.
      destruct (do_acks (calls s) (ackm s) l) as [[cs am] cl] eqn:Ea.
      destruct (zlist_eqb cl l2); inversion H; subst; clear H. cbn.
      destruct (do_acks_facts _ _ _ _ _ _ Ea) as (_ & _ & F3). eauto. }
  split; auto. split.
  - rewrite (li_deliv _ _ (gi_li _ _ HG' c)), A'. reflexivity.
  - intros tr s2 R. destruct (run_soft _ _ _ _ c Hmx HG' R) as (S1 & _).
    pose proof (S1 A') as A2. split; auto. apply acked_blocks; auto.
Qed.

(* ---------- C24: every error class has its cause; msg ids are distinct ---------- *)
Lemma c24_provenance : forall mx s c r, 1 <= mx -> reach mx s -> pc (calls s c) = PReturned r ->
  (r = RCtx -> ucancel (calls s c) = true) /\
  (r = RClosedRetryable \/ r = RClosedAcked -> fclosed s = true) /\
  (r = RRejected -> eclosed s = true).
Proof.
  intros mx s c r Hmx HR Hpc.
  pose proof (reach_GI _ _ Hmx HR) as HG. pose proof (reach_AI _ _ Hmx HR) as HA.
  repeat split.
  - intros ->. apply (li_ctx _ _ (gi_li _ _ HG c)). rewrite Hpc. reflexivity.
  - intros [-> | ->]; apply (ai_cl _ HA c); rewrite Hpc; reflexivity.
  - intros ->. apply (ai_rej _ HA c). rewrite Hpc. reflexivity.
Qed.

Lemma c24_distinct_ids : forall mx s c c', 1 <= mx -> reach mx s ->
  entered (calls s c) = true -> entered (calls s c') = true -> mid (calls s c) = mid (calls s c') -> c = c'.
Proof. intros mx s c c' Hmx HR. apply (ai_du _ (reach_AI _ _ Hmx HR)). Qed.

(* ---------- graceful Close: the wait group ---------- *)
Record WG (s : state) : Prop := mkWG {
  wg_in : forall c, In c (wgl s) <-> entered (calls s c) = true /\ is_returned (pc (calls s c)) = false;
  wg_ret : closeret s = true -> eclosed s = true /\ wgl s = []
}.

Lemma WG_init : forall mx, WG (init mx).
Proof. intros; constructor; cbn; [intros c; split; [tauto | intros [X _]; discriminate] | discriminate]. Qed.

Lemma zremove_in : forall c x l, In x (zremove c l) <-> In x l /\ x <> c.
Proof.
  induction l as [|y t IH]; cbn; [tauto|].
  destruct (Z.eqb_spec y c); subst; cbn; rewrite IH; split; intros; intuition congruence.
Qed.

Lemma caller_ret : forall mx fc ec af c k e k' g,
  caller mx fc ec af c k e = Some (k', g) ->
  match e with
  | CReturn _ _ _ _ _ => is_returned (pc k') = true
  | CEntered _ _ _ _ => ec = false /\ is_returned (pc k') = false
  | _ => is_returned (pc k') = false /\ is_returned (pc k) = false
  end.
Proof. intros mx fc ec af c k e k' g H. cdes H; cbn; auto. Qed.

Lemma noncaller_wg : forall s e s', ev_caller e = None -> step s e = Some s' ->
  wgl s' = wgl s /\ (closeret s' = true -> closeret s = true \/ (eclosed s = true /\ wgl s = [])).
Proof.
  intros s e s' Ec H. unfold step in H. rewrite Ec in H.
  destruct e; try discriminate Ec; cbv zeta in H;
  try solve [brk H; inversion H; subst; clear H; cbn; auto].
  destruct (eclosed s) eqn:E; cbn in H; try discriminate H.
  destruct (wgl s) eqn:W; inversion H; subst; cbn; auto.
Qed.

Theorem step_WG : forall mx s e s', 1 <= mx -> GI mx s -> WG s -> step s e = Some s' -> WG s'.
Proof.
  intros mx s e s' Hmx HG [Win Wret] H. pose proof HG as [Gm Gl _ _ _].
  destruct (ev_caller e) as [c0|] eqn:Ec.
  - pose proof H as H0. unfold step in H. rewrite Ec in H.
    destruct (caller (maxr s) (fclosed s) (eclosed s) (isNone (ackm s (mid (calls s c0)))) c0 (calls s c0) e)
      as [[k' g]|] eqn:Hc; try discriminate H.
    rewrite Gm in Hc. pose proof (Gl c0) as HL0.
    pose proof (caller_enter _ _ _ _ _ _ _ _ _ Hc HL0) as En.
    pose proof (caller_ret _ _ _ _ _ _ _ _ _ Hc) as Rt.
    destruct (post_shape _ _ _ _ _ H) as (P1 & _ & _ & _ & _ & P6 & _).
    assert (Hcalls : forall x, calls s' x = if Z.eqb x c0 then k' else calls s x).
    { intros x. rewrite P1. apply calls_apply. }
    assert (He : eclosed s' = eclosed s) by (rewrite P6; destruct g; reflexivity).
    assert (Hw : wgl (apply_geff s c0 k' g) = wgl s /\ closeret (apply_geff s c0 k' g) = closeret s)
      by (destruct g; split; reflexivity).
    destruct Hw as [Hw1 Hw2].
    assert (C0 : ev_caller e = Some c0) by exact Ec.
    destruct e; cbn in C0; inversion C0; subst;
    try (inversion H; subst; constructor;
         [ intros x; rewrite Hcalls, Hw1; destruct (Z.eqb_spec x c0); subst; [|apply Win];
           destruct En as [E1 E2]; destruct Rt as [R1 R2]; rewrite E1, R1; rewrite Win, R2; tauto
         | rewrite Hw2, He, Hw1; exact Wret ]).
    + (* CEntered *)
      destruct (used s m); inversion H; subst. destruct En as (E1 & E2 & E3 & _). destruct Rt as [R0 R1].
      constructor.
      * intros x. rewrite Hcalls. cbn. rewrite Hw1. destruct (Z.eqb_spec x c0); subst.
        -- rewrite E2, R1. split; auto.
        -- rewrite <- Win. split; [intros [X | X]; congruence | auto].
      * cbn. rewrite Hw2. intros X. destruct (Wret X) as [Y _]. congruence.
    + (* CReturn *)
      inversion H; subst. constructor.
      * intros x. rewrite Hcalls. cbn. rewrite Hw1, zremove_in. destruct (Z.eqb_spec x c0); subst.
        -- rewrite Rt. split; [tauto | intros [_ X]; discriminate].
        -- rewrite Win. tauto.
      * cbn. rewrite Hw1, Hw2. intros X. destruct (Wret X) as [Y Z]. rewrite Z. cbn. split; auto.
        destruct g; cbn; auto.
  - destruct (noncaller_step _ _ _ Ec H) as (N1 & _ & _ & N4 & _).
    destruct (noncaller_wg _ _ _ Ec H) as (M1 & M2).
    constructor.
    + intros c. destruct (N1 c) as [(Hp & _ & Hen) _]. rewrite M1, Hp, Hen. apply Win.
    + intros X. rewrite M1. destruct (M2 X) as [Y | [Y Z]]; [destruct (Wret Y); split; auto | split; auto].
Qed.

Theorem run_WG : forall mx tr s s', 1 <= mx -> GI mx s -> WG s -> run s tr = Some s' -> WG s'.
Proof.
  induction tr as [|e t IH]; intros s s' Hmx HG HW H; cbn in H.
  - inversion H; subst; auto.
  - destruct (step s e) as [s1|] eqn:E; try discriminate.
    apply (IH s1 s' Hmx); auto; [eapply step_GI | eapply step_WG]; eauto.
Qed.

Lemma reach_WG : forall mx s, 1 <= mx -> reach mx s -> WG s.
Proof. intros mx s Hmx [tr H]. eapply run_WG; eauto using GI_init, WG_init. Qed.

(* C26: once Close / ForceClose has returned no call is pending, for good; every later Do is
   rejected in its entry region, and a rejected call never transmitted anything *)
Lemma c26_close : forall mx s, 1 <= mx -> reach mx s ->
  (closeret s = true ->
     eclosed s = true /\ wgl s = [] /\
     forall c, entered (calls s c) = true -> is_returned (pc (calls s c)) = true) /\
  (eclosed s = true -> forall c m q b, step s (CEntered c m q b) = None) /\
  (forall c, pc (calls s c) = PReturned RRejected ->
     entered (calls s c) = false /\ nsends (calls s c) = 0 /\ ndrops (calls s c) = 0).
Proof.
  intros mx s Hmx HR. pose proof (reach_GI _ _ Hmx HR) as HG. pose proof (reach_WG _ _ Hmx HR) as [Win Wret].
  split; [|split].
  - intros X. destruct (Wret X) as [Y Z]. repeat split; auto.
    intros c E. destruct (is_returned (pc (calls s c))) eqn:R; auto.
    assert (I : In c (wgl s)) by (apply Win; auto). rewrite Z in I. destruct I.
  - intros X c m q b. unfold step. cbn [ev_caller]. cbv zeta. cbn [caller]. rewrite X.
    destruct (pc (calls s c)); reflexivity.
  - intros c X. pose proof (gi_li _ _ HG c) as HL.
    assert (E : entered (calls s c) = false) by (apply (li_rejected _ _ HL); rewrite X; reflexivity).
    repeat split; auto.
    + apply (li_nosend _ _ HL E).
    + rewrite (li_drops _ _ HL). unfold drops_of. rewrite X. reflexivity.
Qed.
