(* Proofs for C05: the exact acceptance condition of Cipher.Decrypt, totality, and the
   tamper / reflection / foreign-key corollaries (under explicit hypotheses). *)
From Coq Require Import ZArith List Bool Lia.
From TD Require Import Lib.Bytes Lib.GoSem Gen.CipherConsts Model.MsgCrypto Proof.MsgCrypto.
Import ListNotations.
Open Scope Z_scope.

Lemma app_inv_len {A} (a b c d : list A) : a ++ b = c ++ d -> length a = length c -> a = c /\ b = d.
Proof.
  intros H L. split.
  - apply (f_equal (firstn (length a))) in H. rewrite firstn_app_exact in H. rewrite L, firstn_app_exact in H. exact H.
  - apply (f_equal (skipn (length a))) in H. rewrite skipn_app_exact in H. rewrite L, skipn_app_exact in H. exact H.
Qed.

Lemma skipn_add {A} a b (l : list A) : skipn a (skipn b l) = skipn (b + a) l.
Proof.
  revert l; induction b as [|b IH]; intros l; [reflexivity|].
  destruct l; cbn [skipn Nat.add]; [destruct a; reflexivity|apply IH].
Qed.
Lemma split_24 (c : list Z) : c = firstn 8 c ++ firstn 16 (skipn 8 c) ++ skipn 24 c.
Proof.
  rewrite <- (firstn_skipn 8 c) at 1. f_equal.
  rewrite <- (firstn_skipn 16 (skipn 8 c)) at 1. f_equal.
  rewrite skipn_add. reflexivity.
Qed.
Lemma firstn_8_of_24 (c : list Z) : firstn 8 c = firstn 8 (firstn 24 c).
Proof. rewrite firstn_firstn. reflexivity. Qed.
Lemma mid_16_of_24 (c : list Z) : firstn 16 (skipn 8 c) = skipn 8 (firstn 24 c).
Proof. rewrite (firstn_skipn_comm 16 8 c). reflexivity. Qed.

Section Accept.
  Variable sha256 : list Z -> list Z.
  Variables aes_enc aes_dec : list Z -> list Z -> list Z.

  Lemma message_key_mac key pt s :
    message_key sha256 key pt s = message_key_of_large (sha256 (mac_input key pt s)).
  Proof. reflexivity. Qed.

  (* C05: acceptance passes through exactly the specification's checks *)
  Theorem decrypt_accept_iff s k c d :
    decrypt sha256 aes_dec s k c = Ok d <-> accept_spec sha256 aes_dec s k c d.
  Proof.
    unfold decrypt, accept_spec, open_envelope.
    destruct (Z.ltb_spec (Z.of_nat (length c)) 24) as [Hlt|Hge].
    { split; [discriminate|]. intros (H & _). lia. }
    set (kid := firstn 8 c). set (mk := firstn 16 (skipn 8 c)). set (body := skipn 24 c).
    destruct (bytes_eqb (ak_id k) kid) eqn:Ek; cbn [negb].
    2:{ split; [discriminate|]. intros (_ & H & _). apply bytes_eqb_neq in Ek. congruence. }
    apply bytes_eqb_eq in Ek.
    destruct (Z.eqb_spec (Z.rem (Z.of_nat (length body)) 16) 0) as [Er|Er]; cbn [negb].
    2:{ split; [discriminate|]. intros (_ & _ & H & _). rewrite Z.rem_mod_nonneg in Er by lia. contradiction. }
    pose proof (keys_iv_length sha256 (ak_value k) mk (other s)) as Hiv.
    destruct (keys sha256 (ak_value k) mk (other s)) as [key iv] eqn:K; cbn [fst snd] in *.
    destruct (proj1 (rem16_mult body) Er) as [n Hn].
    unfold ige_dec. rewrite (ige_guard_true iv body n Hiv Hn). cbn [bind].
    set (pt := ige_dec_raw (aes_dec key) iv body).
    destruct (bytes_eqb (message_key sha256 (ak_value k) pt (other s)) mk) eqn:Em; cbn [negb].
    2:{ split; [discriminate|]. intros (_ & _ & _ & H & _). apply bytes_eqb_neq in Em. contradiction. }
    apply bytes_eqb_eq in Em.
    unfold decode_data.
    destruct (Z.ltb_spec (Z.of_nat (length pt)) 32).
    { cbn [bind]. split; [discriminate|]. intros (_ & _ & _ & _ & H' & _). lia. }
    destruct (Z.gtb_spec (d_len (parse_data pt)) (Z.of_nat (length (d_body (parse_data pt))))).
    { cbn [bind]. split; [discriminate|]. intros (_ & _ & _ & _ & _ & -> & H' & _). lia. }
    cbn [bind]. unfold check_lengths.
    destruct (Z.ltb_spec (d_len (parse_data pt)) 0).
    { split; [discriminate|]. intros (_ & _ & _ & _ & _ & -> & H' & _). lia. }
    destruct (Z.eqb_spec (Z.rem (d_len (parse_data pt)) 4) 0) as [E4|E4]; cbn [negb].
    2:{ split; [discriminate|]. intros (_ & _ & _ & _ & _ & -> & _ & H' & _).
        rewrite Z.rem_mod_nonneg in E4 by lia. contradiction. }
    destruct (Z.ltb_spec (Z.of_nat (length (d_body (parse_data pt))) - d_len (parse_data pt)) c_minPadding).
    { split; [discriminate|]. intros (_ & _ & _ & _ & _ & -> & _ & _ & H'). lia. }
    destruct (Z.gtb_spec (Z.of_nat (length (d_body (parse_data pt))) - d_len (parse_data pt)) c_maxPadding).
    { split; [discriminate|]. intros (_ & _ & _ & _ & _ & -> & _ & _ & H'). lia. }
    rewrite Z.rem_mod_nonneg in E4 by lia. rewrite Z.rem_mod_nonneg in Er by lia.
    split.
    - intros [= <-]. repeat split; auto; lia.
    - intros (_ & _ & _ & _ & _ & -> & _). reflexivity.
  Qed.

  (* Decrypt is total: arbitrary input bytes never make it panic (the IGE guards always hold) *)
  Theorem decrypt_no_panic s k c : decrypt sha256 aes_dec s k c <> Panic.
  Proof.
    unfold decrypt, open_envelope.
    destruct (Z.of_nat (length c) <? 24); [discriminate|].
    destruct (bytes_eqb (ak_id k) (firstn 8 c)); cbn [negb]; [|discriminate].
    destruct (Z.eqb_spec (Z.rem (Z.of_nat (length (skipn 24 c))) 16) 0) as [Er|Er]; cbn [negb]; [|discriminate].
    pose proof (keys_iv_length sha256 (ak_value k) (firstn 16 (skipn 8 c)) (other s)) as Hiv.
    destruct (keys sha256 (ak_value k) (firstn 16 (skipn 8 c)) (other s)) as [key iv]; cbn [fst snd] in *.
    destruct (proj1 (rem16_mult _) Er) as [n Hn].
    unfold ige_dec. rewrite (ige_guard_true iv _ n Hiv Hn). cbn [bind].
    destruct (bytes_eqb _ _); cbn [negb]; [|discriminate].
    unfold decode_data. destruct (_ <? 32); [discriminate|]. destruct (_ >? _); [discriminate|].
    cbn [bind]. unfold check_lengths.
    destruct (_ <? 0); [discriminate|]. destruct (negb _); [discriminate|].
    destruct (_ <? _); [discriminate|]. destruct (_ >? _); discriminate.
  Qed.

  (* every result is either a decoded message or an error that carries no data *)
  Corollary decrypt_ok_or_err s k c :
    (exists d, decrypt sha256 aes_dec s k c = Ok d) \/ (exists e, decrypt sha256 aes_dec s k c = Err e).
  Proof.
    pose proof (decrypt_no_panic s k c). destruct (decrypt sha256 aes_dec s k c); eauto. contradiction.
  Qed.

  (* Encrypt is total as well: the padded plaintext is always block aligned *)
  Theorem encrypt_no_panic s k h p rnd : encrypt sha256 aes_enc s k h p rnd <> Panic.
  Proof.
    unfold encrypt, encrypt_plain, padding_for. destruct rnd as [|rb rnd']; [discriminate|].
    destruct (_ <? _) eqn:E; [discriminate|]. cbn [bind]. apply Z.ltb_ge in E.
    set (pt0 := encode_data h (Z.of_nat (length p)) p) in *.
    destruct (count_padding_spec (Z.of_nat (length pt0)) rb ltac:(lia)) as [P1 P2].
    set (pn := count_padding_go (Z.of_nat (length pt0)) rb) in *.
    assert (exists n, length (pt0 ++ firstn (Z.to_nat pn) rnd') = (16 * n)%nat) as [n Hn].
    { apply rem16_mult. rewrite Z.rem_mod_nonneg by lia. rewrite app_length, firstn_length, Nat2Z.inj_add.
      rewrite <- P2. f_equal. lia. }
    rewrite (seal_ok sha256 aes_enc s k _ n Hn). discriminate.
  Qed.

  (* ---- rejections that need no cryptographic hypothesis ---- *)
  Lemma reject_short s k c : Z.of_nat (length c) < 24 -> decrypt sha256 aes_dec s k c = Err EShort.
  Proof.
    intros H. unfold decrypt, open_envelope. destruct (Z.ltb_spec (Z.of_nat (length c)) 24); [reflexivity|lia].
  Qed.
  Lemma reject_key_id s k c : 24 <= Z.of_nat (length c) -> firstn 8 c <> ak_id k ->
    decrypt sha256 aes_dec s k c = Err EKeyId.
  Proof.
    intros H N. unfold decrypt, open_envelope. destruct (Z.ltb_spec (Z.of_nat (length c)) 24); [lia|].
    destruct (bytes_eqb (ak_id k) (firstn 8 c)) eqn:E; [|reflexivity].
    apply bytes_eqb_eq in E. congruence.
  Qed.
  Lemma reject_unaligned s k c : 24 <= Z.of_nat (length c) -> firstn 8 c = ak_id k ->
    (Z.of_nat (length c) - 24) mod 16 <> 0 -> decrypt sha256 aes_dec s k c = Err EAlign.
  Proof.
    intros H K N. unfold decrypt, open_envelope. destruct (Z.ltb_spec (Z.of_nat (length c)) 24); [lia|].
    rewrite K, bytes_eqb_refl. cbn [negb].
    rewrite Z.rem_mod_nonneg by lia. rewrite skipn_length.
    replace (Z.of_nat (length c - 24)) with (Z.of_nat (length c) - 24) by lia.
    destruct (Z.eqb_spec ((Z.of_nat (length c) - 24) mod 16) 0); [contradiction|reflexivity].
  Qed.

  (* ---- an accepted message presents the msg_key of the plaintext it decrypts to ---- *)
  Lemma accepted_mac s k c d : decrypt sha256 aes_dec s k c = Ok d ->
    firstn 16 (skipn 8 c) =
    message_key_of_large (sha256 (mac_input (ak_value k) (decrypted_plaintext sha256 aes_dec s k c) (other s))).
  Proof.
    intros H. apply decrypt_accept_iff in H. destruct H as (_ & _ & _ & H & _).
    rewrite <- message_key_mac. symmetry. exact H.
  Qed.

  (* if the presented msg_key is the genuine msg_key of [padded] under (k0, s0), acceptance forces
     the two hash inputs to collide -- or to be equal *)
  Lemma accepted_same_msg_key s k c d k0 s0 padded :
    decrypt sha256 aes_dec s k c = Ok d ->
    firstn 16 (skipn 8 c) = message_key sha256 (ak_value k0) padded s0 ->
    no_collision sha256 (mac_input (ak_value k) (decrypted_plaintext sha256 aes_dec s k c) (other s))
                        (mac_input (ak_value k0) padded s0) ->
    mac_input (ak_value k) (decrypted_plaintext sha256 aes_dec s k c) (other s) = mac_input (ak_value k0) padded s0.
  Proof.
    intros H M NC. apply NC. rewrite <- (accepted_mac s k c d H). rewrite M. apply message_key_mac.
  Qed.

  Hypothesis Haes : aes_inverse aes_enc aes_dec.
  Hypothesis Haes' : aes_inverse' aes_enc aes_dec.

  (* every accepted byte string is exactly what the peer's sealing function outputs for the
     plaintext it decrypts to *)
  Theorem accepted_is_sealed s k c d : decrypt sha256 aes_dec s k c = Ok d ->
    c = sealed sha256 aes_enc (other s) k (decrypted_plaintext sha256 aes_dec s k c) /\
    seal sha256 aes_enc (other s) k (decrypted_plaintext sha256 aes_dec s k c) = Ok c /\
    d = parse_data (decrypted_plaintext sha256 aes_dec s k c).
  Proof.
    intros H. apply decrypt_accept_iff in H.
    destruct H as (Hl & Hk & Hb & Hm & _ & Hd & _).
    fold (decrypted_plaintext sha256 aes_dec s k c) in Hm, Hd.
    set (pt := decrypted_plaintext sha256 aes_dec s k c) in *.
    set (mk := firstn 16 (skipn 8 c)) in *. set (body := skipn 24 c) in *.
    assert (Z.rem (Z.of_nat (length body)) 16 = 0) as Er by (rewrite Z.rem_mod_nonneg by lia; exact Hb).
    destruct (proj1 (rem16_mult body) Er) as [n Hn].
    pose proof (keys_iv_length sha256 (ak_value k) mk (other s)) as Hiv.
    assert (length pt = (16 * n)%nat) as Hpt.
    { unfold pt, decrypted_plaintext. fold mk body.
      rewrite (ige_dec_raw_length _ (fun b Hb' => proj2 (Haes' _ b Hb')) _ body n Hiv Hn). exact Hn. }
    assert (c = sealed sha256 aes_enc (other s) k pt) as E.
    { unfold sealed. rewrite Hm. rewrite (split_24 c) at 1. fold mk body. rewrite Hk. f_equal. f_equal.
      unfold pt, decrypted_plaintext. fold mk body. symmetry.
      apply (ige_raw_enc_dec _ _ (fun b Hb' => proj1 (Haes' _ b Hb')) (fun b Hb' => proj2 (Haes' _ b Hb')) _ body n Hiv Hn). }
    split; [exact E|]. split; [|exact Hd].
    rewrite (seal_ok sha256 aes_enc (other s) k pt n Hpt). f_equal. symmetry. exact E.
  Qed.

  (* ---- corollaries for a genuine message ct = sealed s k padded ---- *)
  Section Genuine.
    Variables (s : side) (k : authkey) (padded : list Z) (n : nat).
    Hypothesis Hkid : length (ak_id k) = 8%nat.
    Hypothesis Hpad : length padded = (16 * n)%nat.
    Let ct := sealed sha256 aes_enc s k padded.

    Lemma sealed_mk : firstn 16 (skipn 8 ct) = message_key sha256 (ak_value k) padded s.
    Proof.
      unfold ct, sealed. rewrite (skipn_app_len 8 (ak_id k)) by exact Hkid.
      apply firstn_app_len. apply message_key_length.
    Qed.
    Lemma sealed_kid : firstn 8 ct = ak_id k.
    Proof. unfold ct, sealed. apply firstn_app_len. exact Hkid. Qed.
    Lemma sealed_prefix24 : firstn 24 ct = ak_id k ++ message_key sha256 (ak_value k) padded s.
    Proof.
      unfold ct, sealed. rewrite app_assoc. apply firstn_app_len.
      rewrite app_length, Hkid, message_key_length. reflexivity.
    Qed.

    (* any other byte string with the same key id and msg_key (bit flips in the body,
       truncation, extension, replacement) is rejected unless SHA-256 collides *)
    Theorem reject_body_tamper c' :
      firstn 24 c' = firstn 24 ct -> c' <> ct ->
      no_collision sha256 (mac_input (ak_value k) (decrypted_plaintext sha256 aes_dec (other s) k c') s)
                          (mac_input (ak_value k) padded s) ->
      exists e, decrypt sha256 aes_dec (other s) k c' = Err e.
    Proof.
      intros P N NC. destruct (decrypt_ok_or_err (other s) k c') as [[d H]|H]; [exfalso|exact H].
      assert (firstn 16 (skipn 8 c') = message_key sha256 (ak_value k) padded s) as M
        by (rewrite mid_16_of_24, P, <- mid_16_of_24; apply sealed_mk).
      pose proof (accepted_same_msg_key (other s) k c' d k s padded H M) as Q.
      rewrite other_other in Q. specialize (Q NC).
      apply app_inv_head in Q.
      destruct (accepted_is_sealed (other s) k c' d H) as (E & _). rewrite other_other, Q in E.
      apply N. exact E.
    Qed.

    (* reflection: the same side that produced ct decrypts it *)
    Theorem reject_reflection :
      length (ak_value k) = 256%nat ->
      gslice (ak_value k) (88 + x_of s) (32 + 88 + x_of s)
        <> gslice (ak_value k) (88 + x_of (other s)) (32 + 88 + x_of (other s)) ->
      no_collision sha256 (mac_input (ak_value k) (decrypted_plaintext sha256 aes_dec s k ct) (other s))
                          (mac_input (ak_value k) padded s) ->
      exists e, decrypt sha256 aes_dec s k ct = Err e.
    Proof.
      intros L D NC. destruct (decrypt_ok_or_err s k ct) as [[d H]|H]; [exfalso|exact H].
      pose proof (accepted_same_msg_key s k ct d k s padded H sealed_mk NC) as Q.
      unfold mac_input in Q. apply app_inv_len in Q as [Q _]; [apply D; symmetry; exact Q|].
      unfold gslice. rewrite !firstn_length, !skipn_length, L. rewrite !x_of_cases. destruct s; vm_compute; reflexivity.
    Qed.

    (* a message sealed under k decrypted under another key k2 *)
    Theorem reject_foreign_key k2 :
      length (ak_value k) = 256%nat -> length (ak_value k2) = 256%nat ->
      (ak_id k2 <> ak_id k \/
       (gslice (ak_value k2) (88 + x_of s) (32 + 88 + x_of s) <> gslice (ak_value k) (88 + x_of s) (32 + 88 + x_of s) /\
        no_collision sha256 (mac_input (ak_value k2) (decrypted_plaintext sha256 aes_dec (other s) k2 ct) s)
                            (mac_input (ak_value k) padded s))) ->
      exists e, decrypt sha256 aes_dec (other s) k2 ct = Err e.
    Proof.
      intros L L2 [D|[D NC]].
      - exists EKeyId. apply reject_key_id.
        + unfold ct, sealed. rewrite !app_length, Hkid, message_key_length. lia.
        + rewrite sealed_kid. congruence.
      - destruct (decrypt_ok_or_err (other s) k2 ct) as [[d H]|H]; [exfalso|exact H].
        pose proof (accepted_same_msg_key (other s) k2 ct d k s padded H sealed_mk) as Q.
        rewrite other_other in Q. specialize (Q NC).
        unfold mac_input in Q. apply app_inv_len in Q as [Q _]; [apply D; exact Q|].
        unfold gslice. rewrite !firstn_length, !skipn_length, L, L2. reflexivity.
    Qed.

    (* ---- the same facts without any hypothesis on the hash: acceptance EXHIBITS a collision ---- *)
    Lemma accepted_mid_eq s' k' c d :
      decrypt sha256 aes_dec s' k' c = Ok d ->
      firstn 16 (skipn 8 c) = message_key sha256 (ak_value k) padded s ->
      message_key_of_large (sha256 (mac_input (ak_value k') (decrypted_plaintext sha256 aes_dec s' k' c) (other s')))
      = message_key_of_large (sha256 (mac_input (ak_value k) padded s)).
    Proof. intros H M. rewrite <- (accepted_mac s' k' c d H), M. apply message_key_mac. Qed.

    Theorem accepted_body_tamper_collides c' d :
      firstn 24 c' = firstn 24 ct -> c' <> ct ->
      decrypt sha256 aes_dec (other s) k c' = Ok d ->
      collision sha256 (mac_input (ak_value k) (decrypted_plaintext sha256 aes_dec (other s) k c') s)
                       (mac_input (ak_value k) padded s).
    Proof.
      intros P N H.
      assert (firstn 16 (skipn 8 c') = message_key sha256 (ak_value k) padded s) as M
        by (rewrite mid_16_of_24, P, <- mid_16_of_24; apply sealed_mk).
      pose proof (accepted_mid_eq (other s) k c' d H M) as Q. rewrite other_other in Q.
      split; [|exact Q].
      intros E. apply app_inv_head in E.
      destruct (accepted_is_sealed (other s) k c' d H) as (E' & _). rewrite other_other, E in E'.
      apply N. exact E'.
    Qed.

    Theorem accepted_reflection_collides d :
      length (ak_value k) = 256%nat ->
      gslice (ak_value k) (88 + x_of s) (32 + 88 + x_of s)
        <> gslice (ak_value k) (88 + x_of (other s)) (32 + 88 + x_of (other s)) ->
      decrypt sha256 aes_dec s k ct = Ok d ->
      collision sha256 (mac_input (ak_value k) (decrypted_plaintext sha256 aes_dec s k ct) (other s))
                       (mac_input (ak_value k) padded s).
    Proof.
      intros L D H. split; [|exact (accepted_mid_eq s k ct d H sealed_mk)].
      intros E. unfold mac_input in E. apply app_inv_len in E as [E _]; [apply D; symmetry; exact E|].
      unfold gslice. rewrite !firstn_length, !skipn_length, L. rewrite !x_of_cases. destruct s; vm_compute; reflexivity.
    Qed.

    Theorem accepted_foreign_key_collides k2 d :
      length (ak_value k) = 256%nat -> length (ak_value k2) = 256%nat ->
      gslice (ak_value k2) (88 + x_of s) (32 + 88 + x_of s) <> gslice (ak_value k) (88 + x_of s) (32 + 88 + x_of s) ->
      decrypt sha256 aes_dec (other s) k2 ct = Ok d ->
      ak_id k2 = ak_id k /\
      collision sha256 (mac_input (ak_value k2) (decrypted_plaintext sha256 aes_dec (other s) k2 ct) s)
                       (mac_input (ak_value k) padded s).
    Proof.
      intros L L2 D H. split.
      - pose proof H as H'. apply decrypt_accept_iff in H'. destruct H' as (_ & K & _). rewrite sealed_kid in K. symmetry; exact K.
      - pose proof (accepted_mid_eq (other s) k2 ct d H sealed_mk) as Q. rewrite other_other in Q.
        split; [|exact Q].
        intros E. unfold mac_input in E. apply app_inv_len in E as [E _]; [apply D; exact E|].
        unfold gslice. rewrite !firstn_length, !skipn_length, L, L2. reflexivity.
    Qed.

    (* whatever else is accepted (in particular with a modified msg_key) is itself a complete
       genuine sealing of a DIFFERENT plaintext under the same key and direction: producing it
       requires the secret bytes auth_key[88+x .. 120+x] *)
    Theorem tamper_accepted_is_forgery c' d :
      c' <> ct -> decrypt sha256 aes_dec (other s) k c' = Ok d ->
      exists pt', pt' <> padded /\ c' = sealed sha256 aes_enc s k pt' /\ d = parse_data pt'.
    Proof.
      intros N H. destruct (accepted_is_sealed (other s) k c' d H) as (E & _ & Hd).
      rewrite other_other in E. exists (decrypted_plaintext sha256 aes_dec (other s) k c'). split; [|split; assumption].
      intros Q. apply N. rewrite Q in E. exact E.
    Qed.
  End Genuine.
End Accept.
