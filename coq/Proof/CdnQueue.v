(* Proofs about the hash queue of downloader.verifier (C34): against a server that hands out the
   hash windows of a file in consecutive batches, verifier.next serves every window exactly
   once, in offset order, without gaps, and then reports the end. *)
From Coq Require Import ZArith List Bool Lia.
From TD Require Import Model.Cdn.
Import ListNotations.
Open Scope Z_scope.

(* consecutive windows starting at [off] *)
Fixpoint contig (off : Z) (ws : list hwin) : Prop :=
  match ws with
  | [] => True
  | w :: t => w_off w = off /\ 0 < w_limit w /\ contig (off + w_limit w) t
  end.
Fixpoint end_of (off : Z) (ws : list hwin) : Z :=
  match ws with [] => off | w :: t => end_of (off + w_limit w) t end.

Lemma contig_app off a b : contig off (a ++ b) <-> contig off a /\ contig (end_of off a) b.
Proof.
  revert off; induction a as [|w a IH]; intros off; cbn; [tauto|].
  rewrite IH. tauto.
Qed.
Lemma end_of_app off a b : end_of off (a ++ b) = end_of (end_of off a) b.
Proof. revert off; induction a as [|w a IH]; intros off; cbn; auto. Qed.
Lemma end_of_ge off ws : contig off ws -> off <= end_of off ws.
Proof.
  revert off; induction ws as [|w t IH]; intros off H; cbn in *; [lia|].
  destruct H as (_ & H1 & H2). specialize (IH _ H2). lia.
Qed.

(* every offset in a consecutive list is at least the start *)
Lemma contig_lower off ws : contig off ws -> Forall (fun w => off <= w_off w) ws.
Proof.
  revert off; induction ws as [|w t IH]; intros off H; cbn in *; constructor.
  - lia.
  - destruct H as (H0 & H1 & H2). eapply Forall_impl; [|apply IH; exact H2]. cbn; intros; lia.
Qed.

(* sort.SliceStable leaves consecutive windows as they are *)
Lemma ins_off_head w t : Forall (fun y => w_off w <= w_off y) t -> ins_off w t = w :: t.
Proof.
  destruct t as [|y t]; [reflexivity|]. intros H. inversion H; subst. cbn.
  destruct (Z.leb_spec (w_off w) (w_off y)); [reflexivity|lia].
Qed.
Lemma sort_off_contig off ws : contig off ws -> sort_off ws = ws.
Proof.
  revert off; induction ws as [|w t IH]; intros off H; [reflexivity|].
  cbn in H. destruct H as (H0 & H1 & H2). cbn [sort_off fold_right]. fold (sort_off t). rewrite (IH _ H2).
  apply ins_off_head. eapply Forall_impl; [|apply contig_lower; exact H2]. cbn; intros; lia.
Qed.

Lemma new_offset_contig : forall ws off acc, contig off ws -> acc <= off ->
  fold_left (fun acc h => if w_limit h <=? 0 then acc else Z.max acc (w_off h + w_limit h)) ws acc =
  match ws with [] => acc | _ => end_of off ws end.
Proof.
  induction ws as [|w t IH]; intros off acc H Ha; [reflexivity|].
  cbn in H. destruct H as (H0 & H1 & H2). cbn [fold_left end_of].
  destruct (Z.leb_spec (w_limit w) 0); [lia|].
  rewrite (IH (off + w_limit w)); [|exact H2|lia].
  destruct t; [cbn; lia|reflexivity].
Qed.

Section Queue.
Variable W : list hwin.                 (* all hash windows of the file *)
Hypothesis HW : contig 0 W.
Variable server : Z -> list hwin.       (* upload.getFileHashes / getCdnFileHashes *)
(* asked at the start of the remaining windows, the server returns a non-empty batch of the next
   consecutive windows; asked at the end it returns nothing or windows ending there again *)
Hypothesis server_batch : forall done rest, W = done ++ rest -> rest <> [] ->
  exists b more, b <> [] /\ rest = b ++ more /\ server (end_of 0 done) = b.
Hypothesis server_end :
  server (end_of 0 W) = [] \/
  exists b, server (end_of 0 W) = b /\ b <> [] /\
            let l := List.last (sort_off b) {| w_off := 0; w_limit := 0; w_hash := [] |} in
            w_off l + w_limit l = end_of 0 W.

Lemma contig_last off b d : contig off b -> b <> [] ->
  off <= w_off (List.last b d) /\ w_off (List.last b d) + w_limit (List.last b d) = end_of off b /\
  0 < w_limit (List.last b d).
Proof.
  revert off; induction b as [|w t IH]; intros off H Hne; [contradiction|].
  cbn in H. destruct H as (H0 & H1 & H2). destruct t as [|w2 t2].
  - cbn. lia.
  - destruct (IH (off + w_limit w) H2 ltac:(discriminate)) as (I1 & I2 & I3).
    change (List.last (w :: w2 :: t2) d) with (List.last (w2 :: t2) d). cbn [end_of] in *.
    split; [lia|]. split; [exact I2|exact I3].
Qed.

(* the queue holds a segment of W; everything before it has been served; q_offset is its end *)
Theorem drain_correct : forall n done queue rest fuel,
  (length queue + length rest <= n)%nat ->
  W = done ++ queue ++ rest ->
  (length queue + length rest + 1 <= fuel)%nat ->
  v_drain server fuel {| q_hashes := queue; q_offset := end_of 0 (done ++ queue) |} = (queue ++ rest, true).
Proof.
  induction n as [|n IH]; intros done queue rest fuel Hn HWs Hf.
  - destruct queue; [|cbn in Hn; lia]. destruct rest; [|cbn in Hn; lia].
    destruct fuel as [|fuel]; [cbn in Hf; lia|]. cbn [v_drain v_next q_hashes].
    cbn [app] in *. rewrite !app_nil_r in *. subst done. unfold v_update.
    cbn [q_offset]. destruct server_end as [E|(b & E & Hb & Hl)]; rewrite E.
    + reflexivity.
    + destruct (sort_off b) as [|s0 ss] eqn:Es.
      { reflexivity. }
      cbn zeta in Hl. cbn [q_offset].
      match goal with |- context [if ?c then _ else _] => assert (c = true) as -> end; [apply Z.eqb_eq; lia|reflexivity].
  - destruct fuel as [|fuel]; [lia|].
    destruct queue as [|h q].
    + destruct rest as [|r0 rest'].
      { apply (IH done [] [] (S fuel)); cbn; auto; lia. }
      cbn [v_drain v_next q_hashes]. cbn [app] in *. rewrite !app_nil_r in *.
      destruct (server_batch done (r0 :: rest') HWs ltac:(discriminate)) as (b & more & Hb & Hr & Hs).
      unfold v_update. cbn [q_offset]. rewrite Hs.
      assert (contig (end_of 0 done) (b ++ more)) as Hc.
      { rewrite <- Hr. rewrite HWs in HW. apply contig_app in HW. exact (proj2 HW). }
      apply contig_app in Hc. destruct Hc as [Hcb Hcm].
      rewrite (sort_off_contig _ _ Hcb).
      destruct b as [|b0 bs]; [contradiction|].
      destruct (contig_last _ (b0 :: bs) {| w_off := 0; w_limit := 0; w_hash := [] |} Hcb ltac:(discriminate)) as (L1 & L2 & L3).
      cbn [q_offset].
      match goal with |- context [if ?c then _ else _] => assert (c = false) as -> end.
      { apply Z.eqb_neq. lia. }
      cbn [v_pop q_hashes app]. rewrite L2.
      replace (end_of (end_of 0 done) (b0 :: bs)) with (end_of 0 (done ++ [b0] ++ bs)) by (rewrite end_of_app; reflexivity).
      (* b0 is served now; the rest of the batch is queued *)
      pose proof (IH (done ++ [b0]) bs more fuel) as IH'.
      rewrite <- !app_assoc in IH'. cbn [app] in IH'. cbn [q_offset app].
      rewrite IH'.
      * rewrite Hr. cbn [app]. reflexivity.
      * rewrite Hr in Hn. cbn [length] in Hn. rewrite app_length in Hn. cbn [length] in Hn. lia.
      * rewrite HWs, Hr. cbn [app]. reflexivity.
      * rewrite Hr in Hf. cbn [length] in Hf. rewrite app_length in Hf. cbn [length] in Hf. lia.
    + cbn [v_drain v_next q_hashes v_pop].
      pose proof (IH (done ++ [h]) q rest fuel) as IH'.
      rewrite <- !app_assoc in IH'. cbn [app] in IH'. cbn [q_offset].
      replace (end_of 0 (done ++ h :: q)) with (end_of 0 (done ++ h :: q)) by reflexivity.
      rewrite IH'.
      * reflexivity.
      * cbn [length] in Hn. lia.
      * rewrite HWs. cbn [app]. reflexivity.
      * cbn [length] in Hf. lia.
Qed.

(* verifier built from the first k windows (e.g. the redirect's file_hashes), then drained *)
Theorem verifier_serves_all k fuel :
  (length W + 1 <= fuel)%nat ->
  v_drain server fuel (new_verifier (firstn k W)) = (W, true).
Proof.
  intros Hf. unfold new_verifier.
  assert (contig 0 (firstn k W)) as Hc.
  { rewrite <- (firstn_skipn k W) in HW. apply contig_app in HW. exact (proj1 HW). }
  rewrite (sort_off_contig _ _ Hc). rewrite (new_offset_contig _ 0 0 Hc ltac:(lia)).
  replace (match firstn k W with [] => 0 | _ :: _ => end_of 0 (firstn k W) end) with (end_of 0 ([] ++ firstn k W))
    by (destruct (firstn k W); reflexivity).
  rewrite (drain_correct (length W) [] (firstn k W) (skipn k W) fuel).
  - rewrite firstn_skipn. reflexivity.
  - rewrite <- (firstn_skipn k W) at 3. rewrite app_length. lia.
  - cbn [app]. rewrite firstn_skipn. reflexivity.
  - rewrite <- (firstn_skipn k W) in Hf at 1. rewrite app_length in Hf. lia.
Qed.
End Queue.

(* ---------- verifier mode: every delivered chunk is the genuine window ---------- *)
From TD Require Import Proof.Cdn.

Section VerifierMode.
Variable sha : list Z -> list Z.
Variable file : list Z.
Notation size := (zlen file).

Lemma gen_beyond w : size <= w_off w -> gen file w = [].
Proof.
  intros H. unfold gen, slice.
  replace (Z.to_nat (Z.min (w_off w + w_limit w) size - w_off w)) with 0%nat by lia. reflexivity.
Qed.

Lemma concat_gen : forall W off, 0 <= off -> contig off W -> size <= end_of off W ->
  concat (map (gen file) W) = skipn (Z.to_nat off) file.
Proof.
  induction W as [|w t IH]; intros off Hoff Hc He.
  - cbn in *. symmetry. apply skipn_all2. unfold zlen in He. lia.
  - cbn in Hc. destruct Hc as (H0 & H1 & H2). cbn [map concat end_of] in *.
    rewrite (IH (off + w_limit w)) by (auto; lia).
    unfold gen, slice. rewrite H0.
    destruct (Z.le_gt_cases size off) as [Hb|Hb].
    + replace (Z.to_nat (Z.min (off + w_limit w) size - off)) with 0%nat by lia. cbn [firstn app].
      rewrite !skipn_all2; auto; unfold zlen in *; lia.
    + destruct (Z.le_gt_cases (off + w_limit w) size) as [Hs|Hs].
      * rewrite Z.min_l by lia. replace (off + w_limit w - off) with (w_limit w) by lia.
        replace (Z.to_nat (off + w_limit w)) with (Z.to_nat off + Z.to_nat (w_limit w))%nat by lia.
        etransitivity; [|apply (firstn_skipn (Z.to_nat (w_limit w)) (skipn (Z.to_nat off) file))].
        f_equal. generalize (Z.to_nat off) as a, (Z.to_nat (w_limit w)) as b. clear. intros a b.
        revert file. induction a as [|a IHa]; intros l; [reflexivity|]. destruct l; cbn; [destruct b; reflexivity|apply IHa].
      * rewrite Z.min_r by lia. rewrite (@skipn_all2 _ (Z.to_nat (off + w_limit w)) file) by (unfold zlen in *; lia). rewrite app_nil_r.
        apply firstn_all2. rewrite skipn_length. unfold zlen in *. lia.
Qed.

(* hashes of the master DC, no second preimage for the genuine windows *)
Variable W : list hwin.
Hypothesis HW : contig 0 W.
Hypothesis Hcover : size <= end_of 0 W.
Hypothesis hashes_honest : forall w, In w W -> w_hash w = sha (gen file w).
Hypothesis no_collision : forall w V, In w W -> sha V = sha (gen file w) -> V = gen file w.

Theorem verified_chunk_genuine w data : In w W -> vq_verify sha w data = true -> data = gen file w.
Proof.
  intros Hin Hv. unfold vq_verify in Hv. apply bytes_eqb_eq in Hv.
  apply no_collision; [exact Hin|]. rewrite Hv. apply hashes_honest; exact Hin.
Qed.

(* the windows in queue order, each with the chunk that passed verify: the output is the file *)
Theorem verified_download_is_file (chunks : list (hwin * list Z)) :
  map fst chunks = W ->
  Forall (fun c => vq_verify sha (fst c) (snd c) = true) chunks ->
  concat (map snd chunks) = file.
Proof.
  intros Hm Hf.
  assert (map snd chunks = map (gen file) W) as ->.
  { rewrite <- Hm. rewrite map_map. apply map_ext_in. intros c Hc.
    rewrite Forall_forall in Hf. apply verified_chunk_genuine; [|apply Hf; exact Hc].
    rewrite <- Hm. apply in_map. exact Hc. }
  rewrite (concat_gen W 0 ltac:(lia) HW Hcover). reflexivity.
Qed.
End VerifierMode.
