(* Proofs about Model/Obfs2.v (C18). *)
From Coq Require Import ZArith List Bool Lia.
From TD Require Import Lib.Bytes Lib.GoSem Lib.RunLib Gen.Obfs2Consts Model.Obfs2.
Import ListNotations.
Open Scope Z_scope.
Arguments skipn : simpl never.
Arguments firstn : simpl never.
Arguments le_enc : simpl never.
Arguments le_dec : simpl never.

Lemma zlen_nonneg (l : bytes) : 0 <= zlen l.
Proof. unfold zlen; lia. Qed.
Lemma zlen_app (a b : bytes) : zlen (a ++ b) = zlen a + zlen b.
Proof. unfold zlen; rewrite app_length; lia. Qed.

(* firstn/skipn windows that lie inside a prefix only see the prefix *)
Lemma window_prefix (a x : bytes) n m :
  (n + m <= length a)%nat -> firstn m (skipn n (a ++ x)) = firstn m (skipn n a).
Proof.
  intros H. rewrite skipn_app. rewrite firstn_app.
  replace (m - length (skipn n a))%nat with 0%nat by (rewrite skipn_length; lia).
  change (firstn 0 (skipn (n - length a) x)) with (@nil Z). apply app_nil_r.
Qed.
Lemma window_prefix0 (a x : bytes) m : (m <= length a)%nat -> firstn m (a ++ x) = firstn m a.
Proof. intros H. apply (window_prefix a x 0 m). lia. Qed.

Lemma ok_triple_inj {E A B C} (a a' : A) (b b' : B) (c c' : C) :
  @Ok E _ (a, b, c) = Ok (a', b', c') -> a = a' /\ b = b' /\ c = c'.
Proof. intros H; inversion H; auto. Qed.

Section Obfs.
Variable ks : bytes -> bytes -> Z -> Z.
Variable sha256 : bytes -> bytes.
Notation xor_from := (xor_from ks).

Lemma xor_from_length key iv : forall l p, length (xor_from key iv p l) = length l.
Proof. induction l as [|b t IH]; intros p; cbn; [reflexivity|rewrite IH; reflexivity]. Qed.
Lemma xor_from_app key iv : forall a b p,
  xor_from key iv p (a ++ b) = xor_from key iv p a ++ xor_from key iv (p + zlen a) b.
Proof.
  induction a as [|x a IH]; intros b p; cbn [app Obfs2.xor_from].
  - unfold zlen; cbn. rewrite Z.add_0_r; reflexivity.
  - rewrite IH. do 3 f_equal. unfold zlen; cbn [length]. lia.
Qed.
Lemma xor_from_invol key iv : forall l p, xor_from key iv p (xor_from key iv p l) = l.
Proof.
  induction l as [|b t IH]; intros p; cbn; [reflexivity|].
  rewrite IH. f_equal. rewrite Z.lxor_assoc, Z.lxor_nilpotent, Z.lxor_0_r; reflexivity.
Qed.

(* ---------- data in either direction, any chunking ---------- *)
Lemma send_all_concat key iv : forall ws p, send_all ks key iv p ws = xor_from key iv p (concat ws).
Proof.
  induction ws as [|w t IH]; intros p; cbn [send_all concat]; [reflexivity|].
  rewrite xor_from_app, IH; reflexivity.
Qed.

(* the bytes delivered before and including the first delivery that carries an error *)
Fixpoint delivered (chunks : list (bytes * bool)) : bytes :=
  match chunks with
  | [] => []
  | (c, err) :: t => c ++ (if err then [] else delivered t)
  end.
Lemma recv_all_delivered key iv : forall chunks p,
  recv_all ks key iv p chunks = xor_from key iv p (delivered chunks).
Proof.
  induction chunks as [|[c err] t IH]; intros p; cbn [recv_all delivered]; [reflexivity|].
  rewrite xor_from_app. destruct err; [reflexivity|]. rewrite IH; reflexivity.
Qed.

(* an error may only accompany the last delivery (e.g. data together with io.EOF) *)
Fixpoint err_only_last (chunks : list (bytes * bool)) : Prop :=
  match chunks with
  | [] => True
  | [(_, _)] => True
  | (_, err) :: t => err = false /\ err_only_last t
  end.
Lemma delivered_all : forall chunks, err_only_last chunks -> delivered chunks = concat (map fst chunks).
Proof.
  induction chunks as [|[c err] t IH]; intros H; [reflexivity|]. cbn [delivered map concat fst].
  destruct t as [|x t'].
  - destruct err; cbn; rewrite ?app_nil_r; reflexivity.
  - destruct x as [c' e']. destruct H as [-> H]. rewrite IH by exact H. reflexivity.
Qed.

Lemma stream_roundtrip key iv p ws chunks :
  concat (map fst chunks) = send_all ks key iv p ws -> err_only_last chunks ->
  recv_all ks key iv p chunks = concat ws.
Proof.
  intros Hw He. rewrite recv_all_delivered, (delivered_all _ He).
  unfold bytes in *. rewrite Hw, send_all_concat. apply xor_from_invol.
Qed.

(* ---------- generateInit ---------- *)
Lemma read_full_64 s a b : read_full 64 s = Ok (a, b) -> s = a ++ b /\ length a = 64%nat.
Proof.
  unfold read_full. change (64 <=? 0) with false. cbv iota.
  destruct (Z.leb_spec 64 (zlen s)); [|destruct s; discriminate].
  intros E; inversion E; subst. split; [symmetry; apply firstn_skipn|].
  rewrite firstn_length. unfold zlen in *. lia.
Qed.

Lemma gen_init_spec : forall fuel rnd init rest,
  gen_init fuel rnd = Ok (init, rest) ->
  exists skipped, rnd = concat skipped ++ init ++ rest /\
                  Forall (fun c => length c = 64%nat /\ acceptable c = false) skipped /\
                  length init = 64%nat /\ acceptable init = true.
Proof.
  induction fuel as [|f IH]; intros rnd init rest H; cbn [gen_init] in H; [discriminate|].
  destruct (read_full 64 rnd) as [[cand r]| |] eqn:E; cbn [bind] in H; try discriminate.
  apply read_full_64 in E. destruct E as (-> & Hl).
  destruct (acceptable cand) eqn:Ea.
  - inversion H; subst. exists []. cbn [concat app]. repeat split; auto.
  - destruct (IH _ _ _ H) as (sk & -> & Hsk & Hi & Hacc).
    exists (cand :: sk). cbn [concat]. rewrite <- app_assoc. repeat split; auto.
Qed.

Lemma gen_init_fuel : forall fuel rnd, (length rnd < fuel)%nat -> gen_init fuel rnd <> Err OOutOfFuel.
Proof.
  induction fuel as [|f IH]; intros rnd H; [lia|]. cbn [gen_init].
  destruct (read_full 64 rnd) as [[cand r]| |] eqn:E; cbn [bind]; try discriminate.
  - apply read_full_64 in E. destruct E as (-> & Hl).
    destruct (acceptable cand); [discriminate|]. apply IH. rewrite app_length in H. lia.
  - unfold read_full in E. change (64 <=? 0) with false in E. cbv iota in E.
    destruct (64 <=? zlen rnd); [discriminate|]. destruct rnd; inversion E; discriminate.
Qed.

(* acceptability only looks at the first eight bytes *)
Lemma acceptable_prefix (a x y : bytes) : (8 <= length a)%nat -> acceptable (a ++ x) = acceptable (a ++ y).
Proof.
  intros H. unfold acceptable.
  rewrite !(window_prefix0 a) by lia. rewrite !(window_prefix a _ 4 4) by lia.
  rewrite !app_nth1 by lia. reflexivity.
Qed.

(* ---------- handshake / accept ---------- *)
Lemma create_streams_prefix (a x y secret : bytes) :
  length a = 56%nat -> create_streams sha256 (a ++ x) secret = create_streams sha256 (a ++ y) secret.
Proof.
  intros H. unfold create_streams, rev48.
  rewrite !(window_prefix a _ 8 32), !(window_prefix a _ 40 16), !(window_prefix a _ 8 48) by lia.
  reflexivity.
Qed.

Lemma handshake_accept fuel rnd protocol dc secret hdr cep rest t :
  length protocol = 4%nat ->
  client_handshake ks sha256 fuel rnd protocol dc secret = Ok (hdr, cep, rest) ->
  server_accept ks sha256 (hdr ++ t) secret =
    Ok ((protocol, dc mod 65536), {| enc := dec cep; dec := enc cep |}, t) /\
  s_pos (enc cep) = 64 /\ s_pos (dec cep) = 0 /\
  length hdr = 64%nat /\ acceptable hdr = true /\
  exists init skipped, rnd = concat skipped ++ init ++ rest /\
       Forall (fun c => length c = 64%nat /\ acceptable c = false) skipped /\
       length init = 64%nat /\ firstn 56 hdr = firstn 56 init.
Proof.
  intros Hp H. unfold client_handshake in H.
  destruct (gen_init fuel rnd) as [[init r]| |] eqn:Eg; cbn [bind] in H; try discriminate.
  destruct (gen_init_spec _ _ _ _ Eg) as (sk & Hrnd & Hsk & Hil & Hacc).
  destruct (create_streams sha256 init secret) as [k| |] eqn:Ec; cbn [bind] in H; try discriminate.
  unfold xor_stream, new_ctr in H. cbn [s_key s_iv s_pos] in H.
  apply ok_triple_inj in H. destruct H as (Hh0 & Hk0 & Hr0). subst hdr cep r.
  cbn [enc dec s_pos].
  set (A := firstn 56 init) in *.
  assert (length A = 56%nat) as HA by (subst A; rewrite firstn_length; lia).
  assert (init = A ++ skipn 56 init) as Hinit by (subst A; symmetry; apply firstn_skipn).
  set (P := protocol ++ le_enc 2 dc ++ skipn 62 init) in *.
  assert (length P = 8%nat) as HP.
  { subst P. rewrite !app_length, le_enc_length, skipn_length. lia. }
  assert (zlen A = 56) as HzA by (unfold zlen; rewrite HA; reflexivity).
  assert (zlen (A ++ P) = 64) as HzAP by (unfold zlen; rewrite app_length, HA, HP; reflexivity).
  rewrite HzAP. change (0 + 64) with 64.
  rewrite xor_from_app, HzA in *. change (0 + 56) with 56 in *.
  set (X := Obfs2.xor_from ks (ek k) (eiv k) 0 A) in *.
  assert (length X = 56%nat) as HX by (subst X; rewrite xor_from_length; exact HA).
  replace (skipn 56 (X ++ Obfs2.xor_from ks (ek k) (eiv k) 56 P)) with (Obfs2.xor_from ks (ek k) (eiv k) 56 P)
    by (rewrite <- HX at 1; rewrite skipn_app_exact; reflexivity).
  assert (firstn 8 (Obfs2.xor_from ks (ek k) (eiv k) 56 P) = Obfs2.xor_from ks (ek k) (eiv k) 56 P) as Hf8
    by (apply firstn_all2; rewrite xor_from_length; lia).
  rewrite Hf8.
  set (B := Obfs2.xor_from ks (ek k) (eiv k) 56 P).
  assert (length B = 8%nat) as HB by (subst B; rewrite xor_from_length; exact HP).
  assert (length (A ++ B) = 64%nat) as Hh by (rewrite app_length; lia).
  assert (zlen (A ++ B) = 64) as HzAB by (unfold zlen; rewrite Hh; reflexivity).
  split; [|split; [reflexivity|split; [reflexivity|split; [exact Hh|split]]]].
  - unfold server_accept, read_full, xor_stream, new_ctr. cbn [s_key s_iv s_pos]. change (64 <=? 0) with false. cbv iota.
    destruct (Z.leb_spec 64 (zlen ((A ++ B) ++ t))) as [_|Hc];
      [|rewrite zlen_app in Hc; unfold zlen at 1 in Hc; rewrite Hh in Hc; pose proof (zlen_nonneg t); lia].
    replace (Z.to_nat 64) with (length (A ++ B)) by (rewrite Hh; reflexivity).
    rewrite firstn_app_exact, skipn_app_exact. cbn [bind].
    rewrite (create_streams_prefix A B (skipn 56 init) secret HA), <- Hinit, Ec. cbn [bind].
    rewrite xor_from_app, HzA. change (0 + 56) with 56. fold X. subst B. rewrite xor_from_invol.
    replace (skipn 56 (X ++ P)) with P by (rewrite <- HX at 1; rewrite skipn_app_exact; reflexivity).
    replace (skipn 60 (X ++ P)) with (skipn 4 P).
    2:{ rewrite skipn_app, HX. replace (skipn 60 X) with (@nil Z) by (symmetry; apply skipn_all2; lia). reflexivity. }
    subst P. rewrite <- Hp at 1. rewrite firstn_app_exact. rewrite <- Hp at 1. rewrite skipn_app_exact.
    rewrite <- (le_enc_length 2 dc) at 1. rewrite firstn_app_exact. rewrite le_dec_enc_mod.
    change (256 ^ Z.of_nat 2) with 65536. rewrite HzAB. reflexivity.
  - rewrite (acceptable_prefix A B (skipn 56 init)) by lia. rewrite <- Hinit. exact Hacc.
  - exists init, sk. repeat split; auto. rewrite window_prefix0 by lia. subst A. rewrite firstn_firstn. reflexivity.
Qed.

(* the whole session: handshake, accept on the header followed by the client's ciphertext,
   data in both directions -- the stream states (key, iv, position) each side holds afterwards
   are the ones the model computed, nothing is assumed about them *)
Lemma session_roundtrip fuel rnd protocol dc secret hdr cep rest c2s s2c dl_s dl_c :
  length protocol = 4%nat ->
  client_handshake ks sha256 fuel rnd protocol dc secret = Ok (hdr, cep, rest) ->
  let wire := send_on ks (enc cep) c2s in
  exists sep,
    server_accept ks sha256 (hdr ++ wire) secret = Ok ((protocol, dc mod 65536), sep, wire) /\
    dec sep = enc cep /\ enc sep = dec cep /\
    (concat (map fst dl_s) = wire -> err_only_last dl_s -> recv_on ks (dec sep) dl_s = concat c2s) /\
    (concat (map fst dl_c) = send_on ks (enc sep) s2c -> err_only_last dl_c ->
     recv_on ks (dec cep) dl_c = concat s2c).
Proof.
  intros Hp H wire. destruct (handshake_accept _ _ _ _ _ _ _ _ wire Hp H) as (Ha & _).
  exists {| enc := dec cep; dec := enc cep |}. cbn [enc dec].
  split; [exact Ha|]. split; [reflexivity|]. split; [reflexivity|]. split.
  - intros Hw He. unfold recv_on. apply stream_roundtrip; [exact Hw|exact He].
  - intros Hw He. unfold recv_on. apply stream_roundtrip; [exact Hw|exact He].
Qed.

End Obfs.
