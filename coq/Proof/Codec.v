(* Proofs about Model/Codec.v: totality and allocation bound (C17). *)
From Coq Require Import ZArith List Bool Lia.
From TD Require Import Lib.Bytes Lib.GoSem Lib.RunLib Gen.CodecConsts Model.Codec.
Import ListNotations.
Open Scope Z_scope.
Arguments skipn : simpl never.
Arguments firstn : simpl never.
Arguments le_dec : simpl never.
Arguments le_enc : simpl never.

(* ---------- generic facts ---------- *)
Lemma zlen_nonneg (l : bytes) : 0 <= zlen l.
Proof. unfold zlen; lia. Qed.
Lemma zlen_app (a b : bytes) : zlen (a ++ b) = zlen a + zlen b.
Proof. unfold zlen; rewrite app_length; lia. Qed.
Lemma zlen_firstn (k : Z) (s : bytes) : 0 <= k <= zlen s -> zlen (firstn (Z.to_nat k) s) = k.
Proof. unfold zlen; intros H; rewrite firstn_length, Nat.min_l by lia; lia. Qed.
Lemma zlen_skipn (k : Z) (s : bytes) : 0 <= k <= zlen s -> zlen (skipn (Z.to_nat k) s) = zlen s - k.
Proof. unfold zlen; intros H; rewrite skipn_length; lia. Qed.

Lemma read_full_inv k s a b :
  read_full k s = Ok (a, b) ->
  (k <= 0 /\ a = [] /\ b = s) \/
  (0 < k <= zlen s /\ a = firstn (Z.to_nat k) s /\ b = skipn (Z.to_nat k) s /\ zlen a = k).
Proof.
  unfold read_full; destruct (Z.leb_spec k 0); [intros E; inversion E; auto|].
  destruct (Z.leb_spec k (zlen s)); [|destruct s; discriminate].
  intros E; inversion E; subst; right; repeat split; try lia. apply zlen_firstn; lia.
Qed.
Lemma read_full_no_panic k s : read_full k s <> Panic.
Proof.
  unfold read_full; destruct (k <=? 0); [discriminate|]; destruct (k <=? zlen s); [discriminate|].
  destruct s; discriminate.
Qed.
Lemma read_full_ok k s : 0 < k <= zlen s ->
  read_full k s = Ok (firstn (Z.to_nat k) s, skipn (Z.to_nat k) s).
Proof.
  intros H; unfold read_full. destruct (Z.leb_spec k 0); [lia|]. destruct (Z.leb_spec k (zlen s)); [reflexivity|lia].
Qed.

Lemma go_slice_ok {A} (s : list A) lo hi :
  0 <= lo -> lo <= hi -> hi <= Z.of_nat (length s) ->
  @go_slice cerr A s lo hi = Ok (firstn (Z.to_nat (hi - lo)) (skipn (Z.to_nat lo) s)).
Proof.
  intros H1 H2 H3; unfold go_slice.
  destruct (Z.leb_spec 0 lo); [|lia]. destruct (Z.leb_spec lo hi); [|lia].
  destruct (Z.leb_spec hi (Z.of_nat (length s))); [reflexivity|lia].
Qed.

Lemma buf_u32_ok b : c_Word <= zlen b -> buf_u32 b = Ok (le_dec (firstn 4 b), skipn 4 b).
Proof. intros H; unfold buf_u32; destruct (Z.ltb_spec (zlen b) c_Word); [lia|reflexivity]. Qed.
Lemma buf_u32_no_panic b : buf_u32 b <> Panic.
Proof. unfold buf_u32; destruct (zlen b <? c_Word); discriminate. Qed.
Lemma buf_int_no_panic b : buf_int b <> Panic.
Proof. unfold buf_int, buf_u32; destruct (zlen b <? c_Word); cbn; discriminate. Qed.

Lemma check_proto_no_panic p : check_proto p <> Panic.
Proof.
  unfold check_proto; destruct (not_proto_err_go (zlen p)); [discriminate|].
  unfold buf_int, buf_u32; destruct (zlen p <? c_Word); cbn; discriminate.
Qed.

Lemma finish_no_panic r : r <> Panic -> finish r <> Panic.
Proof.
  unfold finish; destruct r as [[p s]| |]; cbn; try discriminate; try congruence.
  intros _. pose proof (check_proto_no_panic p). destruct (check_proto p); cbn; congruence.
Qed.

Lemma readlen_bad_false n : readlen_bad_go n = false -> 0 < n <= c_maxMessageSize.
Proof.
  unfold readlen_bad_go; rewrite orb_false_iff, Z.leb_gt, Z.gtb_ltb, Z.ltb_ge; lia.
Qed.
Lemma read_len_inv s n h s1 :
  read_len s = Ok (n, h, s1) ->
  0 < n <= c_maxMessageSize /\ n = le_dec h /\ zlen h = c_Word /\ s = h ++ s1.
Proof.
  unfold read_len. destruct (read_full c_Word s) as [[a b]| |] eqn:E; cbn; try discriminate.
  destruct (readlen_bad_go (le_dec a)) eqn:Eb; [discriminate|].
  intros X; inversion X; subst. apply readlen_bad_false in Eb.
  apply read_full_inv in E. destruct E as [[E _]|(E1 & E2 & E3 & E4)]; [cbv [c_Word] in E; lia|].
  subst. repeat split; try lia; auto. symmetry; apply firstn_skipn.
Qed.
Lemma read_len_no_panic s : read_len s <> Panic.
Proof.
  unfold read_len. pose proof (read_full_no_panic c_Word s).
  destruct (read_full c_Word s) as [[a b]| |]; cbn; try congruence.
  destruct (readlen_bad_go (le_dec a)); discriminate.
Qed.

(* ---------- C17: no panic, bounded buffer ---------- *)
Definition alloc_bound : Z := c_maxMessageSize + c_Word.
Ltac zc := cbv [c_Word c_maxMessageSize alloc_bound] in *; lia.

Lemma abridged_total s :
  snd (read_abridged s) <> Panic /\ fst (read_abridged s) <= alloc_bound.
Proof.
  unfold read_abridged, alloc_bound.
  pose proof (read_full_no_panic 1 s) as N1.
  destruct (read_full 1 s) as [[h1 s1]| |]; cbn [fst snd]; try (split; [congruence|zc]).
  set (r := if abridged_long_go (hd 0 h1) then read_full 3 s1 else Ok ([hd 0 h1], s1)).
  assert (r <> Panic) as N2.
  { subst r; destruct (abridged_long_go (hd 0 h1)); [apply read_full_no_panic|discriminate]. }
  destruct r as [[h s2]| |]; cbn [fst snd]; try (split; [congruence|zc]).
  destruct (abridged_bad_go (le_dec h)) eqn:Eb; cbn [fst snd]; [split; [discriminate|zc]|].
  split; [apply finish_no_panic, read_full_no_panic|].
  unfold abridged_bad_go in Eb; rewrite Z.gtb_ltb, Z.ltb_ge in Eb.
  unfold abridged_bytes_go. cbv [c_Word c_maxMessageSize] in *. lia.
Qed.

Lemma rem4_bounds n : 0 <= n -> 0 <= Z.rem n 4 <= n /\ Z.rem n 4 < 4.
Proof.
  intros H; pose proof (Z.rem_bound_pos n 4 H ltac:(lia)).
  pose proof (Z.rem_le n 4 H ltac:(lia)). lia.
Qed.

Lemma inter_raw_total padding s :
  snd (read_inter_raw padding s) <> Panic /\ fst (read_inter_raw padding s) <= alloc_bound.
Proof.
  unfold read_inter_raw.
  pose proof (read_len_no_panic s) as N1.
  destruct (read_len s) as [[[n h] s1]| |] eqn:E; cbn [fst snd]; try (split; [congruence|zc]).
  apply read_len_inv in E. destruct E as (Hn & _ & _ & _).
  split; [|zc].
  pose proof (read_full_no_panic n s1) as N2.
  destruct (read_full n s1) as [[p s2]| |] eqn:E2; cbn; try congruence; try discriminate.
  apply read_full_inv in E2. destruct E2 as [[E2 _]|(E2 & -> & _ & Hl)]; [lia|].
  destruct padding; [|discriminate].
  unfold pad_strip_go. pose proof (rem4_bounds n ltac:(lia)).
  rewrite go_slice_ok; cbn; try discriminate; try lia.
  fold (zlen (firstn (Z.to_nat n) s1)). lia.
Qed.

Lemma intermediate_total s :
  snd (read_intermediate s) <> Panic /\ fst (read_intermediate s) <= alloc_bound.
Proof.
  unfold read_intermediate. destruct (inter_raw_total false s) as (N & B).
  destruct (read_inter_raw false s) as [a r]; cbn [fst snd] in *. split; [apply finish_no_panic; exact N|exact B].
Qed.

Lemma padded_total s :
  snd (read_padded s) <> Panic /\ fst (read_padded s) <= alloc_bound.
Proof.
  unfold read_padded. destruct (inter_raw_total true s) as (N & B).
  destruct (read_inter_raw true s) as [a r]; cbn [fst snd] in *. split; [|exact B].
  apply finish_no_panic. destruct r as [[p s2]| |]; cbn; try congruence; try discriminate.
  pose proof (rem4_bounds (zlen p) (zlen_nonneg p)).
  rewrite go_slice_ok; cbn; try discriminate; try lia. fold (zlen p). lia.
Qed.

Lemma full_short_false n : full_short_go n = false -> 3 * c_Word <= n.
Proof. unfold full_short_go; rewrite Z.ltb_ge; auto. Qed.

Lemma fullc_total crc seq s :
  snd (read_fullc crc seq s) <> Panic /\ fst (read_fullc crc seq s) <= alloc_bound.
Proof.
  unfold read_fullc, alloc_bound.
  pose proof (read_len_no_panic s) as N1.
  destruct (read_len s) as [[[n h] s1]| |] eqn:E; cbn [fst snd]; try (split; [congruence|zc]).
  apply read_len_inv in E. destruct E as (Hn & _ & Hh & _).
  destruct (full_short_go n) eqn:Es; cbn [fst snd]; [split; [discriminate|zc]|].
  apply full_short_false in Es.
  unfold make_len. destruct (Z.ltb_spec (n - c_Word) 0); [cbv [c_Word] in *; lia|].
  cbn [fst snd]. split; [|lia].
  pose proof (read_full_no_panic (n - c_Word) s1) as N2.
  destruct (read_full (n - c_Word) s1) as [[inner s2]| |] eqn:E2; cbn; try congruence; try discriminate.
  apply read_full_inv in E2. destruct E2 as [[E2 _]|(E2 & _ & _ & Hl)]; [cbv [c_Word] in *; lia|].
  unfold buf_int. rewrite buf_u32_ok by (cbv [c_Word] in *; lia). cbn.
  destruct (full_seq_bad_go _ seq); [discriminate|].
  assert (zlen (skipn 4 inner) = n - 2 * c_Word) as Hl1.
  { change 4%nat with (Z.to_nat 4). rewrite zlen_skipn by (cbv [c_Word] in *; lia). cbv [c_Word] in *; lia. }
  unfold full_payload_len_go.
  rewrite go_slice_ok by (fold (zlen (skipn 4 inner)); cbv [c_Word] in *; lia). cbn.
  rewrite buf_u32_ok.
  2:{ fold (zlen (skipn 4 inner)). rewrite Hl1.
      rewrite zlen_firstn; [cbv [c_Word]; lia|].
      split; [cbv [c_Word]; lia|]. rewrite zlen_skipn; rewrite Hl1; cbv [c_Word] in *; lia. }
  cbn.
  rewrite go_slice_ok by (try (fold (zlen (h ++ inner)); rewrite zlen_app); cbv [c_Word] in *; lia). cbn.
  destruct (negb _); [discriminate|].
  rewrite go_slice_ok by (fold (zlen (skipn 4 inner)); cbv [c_Word] in *; lia). cbn.
  pose proof (check_proto_no_panic (firstn (Z.to_nat (n - 3 * c_Word - 0)) (skipn (Z.to_nat 0) (skipn 4 inner)))) as N3.
  destruct (check_proto _); cbn; congruence.
Qed.

Lemma read_c_total crc c seq s :
  snd (read_c crc c seq s) <> Panic /\ fst (read_c crc c seq s) <= alloc_bound.
Proof.
  destruct c; cbn [read_c];
    [apply abridged_total|apply intermediate_total|apply padded_total|apply fullc_total].
Qed.

Lemma read_stream_total crc c fuel : forall seq s, snd (read_stream crc c seq fuel s) <> StopPanic.
Proof.
  induction fuel as [|f IH]; intros seq s; cbn [read_stream]; [discriminate|].
  destruct (read_c_total crc c seq s) as [N _].
  destruct (snd (read_c crc c seq s)) as [[p s']| |]; try congruence; try discriminate.
  specialize (IH (seq + 1) s'). destruct (read_stream crc c (seq + 1) f s'); cbn in *; exact IH.
Qed.
