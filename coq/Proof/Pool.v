(* Proofs about Model/Pool.v: the invariant Inv (Proof/PoolTac.v) is preserved by every event, hence
   holds in every reachable state -- for all event lists, any number of callers, connections and
   requests, any max.  The C27 / C28 theorems are consequences. *)
From Coq Require Import ZArith List Bool Arith Lia.
From TD Require Import Gen.PoolDecide Model.Pool Proof.PoolTac.
Import ListNotations.
Open Scope Z_scope.

Lemma step_EStart : forall st x st', Inv st -> step st (EStart x) = Some st' -> Inv st'.
Proof.
  intros st x st' I H. inv_step H; try (destruct b); try (destruct md); try (destruct w); destruct I; prep; go; t1.
Qed.

Lemma step_EStartClosed : forall st x st', Inv st -> step st (EStartClosed x) = Some st' -> Inv st'.
Proof.
  intros st x st' I H. inv_step H; try (destruct b); try (destruct md); try (destruct w); destruct I; prep; go; t1.
Qed.

Lemma step_EPop : forall st x c st', Inv st -> step st (EPop x c) = Some st' -> Inv st'.
Proof.
  intros st x c st' I H. inv_step H; try (destruct b); try (destruct md); try (destruct w); destruct I; prep; go; t1.
Qed.

Lemma step_ECheck : forall st x b st', Inv st -> step st (ECheck x b) = Some st' -> Inv st'.
Proof.
  intros st x b st' I H. inv_step H; try (destruct b); try (destruct md); try (destruct w); destruct I; prep; go; t1.
Qed.

Lemma step_ENewRefused : forall st x st', Inv st -> step st (ENewRefused x) = Some st' -> Inv st'.
Proof.
  intros st x st' I H. inv_step H; destruct I; prep; go; t1.
Qed.

Lemma step_ENew : forall st x t st', Inv st -> step st (ENew x t) = Some st' -> Inv st'.
Proof.
  intros st x t st' I H. inv_step H; destruct I; prep; go; t1.
  all: pcfacts; normH; pcfacts; prep; sat; keys.
  all: try solve [base].
  - unfold updN. destruct (Nat.eqb_spec x0 x).
    + subst. tauto.
    + match goal with U : forall x, In x (s_pending ?s) <-> _ |- _ => rewrite <- (U x0) end. intuition congruence.
  - constructor; [|assumption]. match goal with U : forall x, In x (s_pending ?s) <-> _ |- _ => rewrite (U x) end. congruence.
Qed.

Lemma step_ECreate : forall st x c st', Inv st -> step st (ECreate x c) = Some st' -> Inv st'.
Proof.
  intros st x c st' I H. inv_step H. dI I.
  assert (Fh : forall x0, held_conn (s_pc st x0) <> Some c) by (intros x0 E; exact (Ihcre x0 c E G1)).
  assert (Ff : ~ In c (s_free st)) by (intro E; exact (Ifcre c E G1)).
  assert (Fc : forall k, s_chan st k <> Some c) by (intros k E; exact (Ichcre k c E G1)).
  assert (Fn : ~ In c (s_created st)) by (intro E; apply Icre in E; congruence).
  assert (Fp : In x (s_pending st)) by (apply Ipend; assumption).
  prep; go; t1.
  all: pcfacts; normH; pcfacts; prep; sat; keys.
  all: try solve [base].
  all: try solve [exfalso; eapply Fh; eassumption].
  all: try solve [match goal with A : forall c, s_ctxdone ?s = false -> s_conns ?s c <> None -> @?Q c |- In ?c0 _ \/ _ => apply A; congruence end].
  - right; right. eapply ex_upd_new; reflexivity.
  - destruct (Iacct c0) as [F|[[k1 F]|[x1 F]]]; try assumption.
    + left; assumption.
    + right; left; eauto.
    + right; right. ex1.
  - rewrite removeN_length by assumption. rewrite dead_upd, Z.eqb_refl. cbn [fresh_conn c_dead].
    rewrite (live_ext (s_conns st)); [lia|]. intros c1 I1. rewrite dead_upd.
    destruct (Z.eqb_spec c1 c); [subst; tauto | reflexivity].
  - rewrite removeN_In. unfold updN. destruct (Nat.eqb_spec x0 x).
    + subst. split; [tauto | discriminate].
    + rewrite Ipend. tauto.
  - apply removeN_NoDup; assumption.
  - unfold updZ. destruct (Z.eqb_spec c0 c).
    + subst. split; [tauto | discriminate].
    + rewrite Icre. intuition congruence.
Qed.

Lemma step_ENewReady : forall st x st', Inv st -> step st (ENewReady x) = Some st' -> Inv st'.
Proof.
  intros st x st' I H. inv_step H; try (destruct b); try (destruct md); try (destruct w); destruct I; prep; go; t1.
Qed.

Lemma step_ENewCancel : forall st x st', Inv st -> step st (ENewCancel x) = Some st' -> Inv st'.
Proof.
  intros st x st' I H. inv_step H; try (destruct b); try (destruct md); try (destruct w); destruct I; prep; go; t1.
Qed.

Lemma step_ENewClosed : forall st x st', Inv st -> step st (ENewClosed x) = Some st' -> Inv st'.
Proof.
  intros st x st' I H. inv_step H; try (destruct b); try (destruct md); try (destruct w); destruct I; prep; go; t1.
Qed.

Lemma step_ENewDead : forall st x st', Inv st -> step st (ENewDead x) = Some st' -> Inv st'.
Proof.
  intros st x st' I H. inv_step H; try (destruct b); try (destruct md); try (destruct w); destruct I; prep; go; t1.
Qed.

Lemma step_EReg : forall st x k st', Inv st -> step st (EReg x k) = Some st' -> Inv st'.
Proof.
  intros st x k st' I H. inv_step H; destruct I; prep; go; t1.
  all: pcfacts; normH; pcfacts; prep; sat; keys.
  all: try solve [base].
  all: try solve [intros [?|?]; subst; sat; keys; base].
  all: try solve [constructor; [intro; keys; lia | assumption]].
  all: try solve [destruct H0 as [?|?]; subst; [eapply ex_upd_new; reflexivity | sat; ex1]].
  all: try solve [sat; keys; left; right; assumption].
  all: try solve [destruct H0; [lia | keys; lia]].
Qed.

Lemma step_EWaitGot : forall st x c st', Inv st -> step st (EWaitGot x c) = Some st' -> Inv st'.
Proof.
  intros st x c st' I H. inv_step H; try (destruct b); try (destruct md); try (destruct w); destruct I; prep; go; t1.
Qed.

Lemma step_EWaitStuck : forall st x st', Inv st -> step st (EWaitStuck x) = Some st' -> Inv st'.
Proof.
  intros st x st' I H. inv_step H; try (destruct b); try (destruct md); try (destruct w); destruct I; prep; go; t1.
Qed.

Lemma step_EWaitCancel : forall st x st', Inv st -> step st (EWaitCancel x) = Some st' -> Inv st'.
Proof.
  intros st x st' I H. inv_step H; try (destruct b); try (destruct md); try (destruct w); destruct I; prep; go; t1.
Qed.

Lemma step_EWaitClosed : forall st x st', Inv st -> step st (EWaitClosed x) = Some st' -> Inv st'.
Proof.
  intros st x st' I H. inv_step H; try (destruct b); try (destruct md); try (destruct w); destruct I; prep; go; t1.
Qed.

Lemma step_EGiveDel : forall st x st', Inv st -> step st (EGiveDel x) = Some st' -> Inv st'.
Proof.
  intros st x st' I H. inv_step H; try (destruct b); try (destruct md); try (destruct w); destruct I; prep; go; t1.
Qed.

Lemma step_EGiveEmpty : forall st x st', Inv st -> step st (EGiveEmpty x) = Some st' -> Inv st'.
Proof.
  intros st x st' I H. inv_step H; try (destruct b); try (destruct md); try (destruct w); destruct I; prep; go; t1.
Qed.

Lemma step_EGiveGot : forall st x c st', Inv st -> step st (EGiveGot x c) = Some st' -> Inv st'.
Proof.
  intros st x c st' I H. inv_step H; try (destruct b); try (destruct md); try (destruct w); destruct I; prep; go; t1.
Qed.

Lemma step_EInvRet : forall st x r md st', Inv st -> step st (EInvRet x r md) = Some st' -> Inv st'.
Proof.
  intros st x r md st' I H. inv_step H; try (destruct b); try (destruct md); try (destruct w); destruct I; prep; go; t1.
Qed.

Lemma step_EDeadBy : forall st x c st', Inv st -> step st (EDeadBy x c) = Some st' -> Inv st'.
Proof.
  intros st x c st' I H. inv_step H. dI I.
  prep; go; t1.
  all: pcfacts; normH; pcfacts; prep; sat; keys.
  all: try solve [base].
  all: try solve [match goal with A : forall c, s_ctxdone ?s = false -> s_conns ?s c <> None -> @?Q c |- In ?c0 _ \/ _ => apply A; congruence end].
  all: assert (D : c_dead c1 = false) by
    (destruct (c_dead c1) eqn:E; [|reflexivity]; pose proof (Iflags c) as F; rewrite H1, H in F; specialize (F eq_refl); congruence).
  - assert (1 <= live (s_conns st) (s_created st)).
    { apply (live_pos _ _ c); [apply Icre; congruence | congruence]. }
    unfold dead_underflow_go. apply Z.ltb_ge. lia.
  - erewrite (live_kill (s_conns st)) with (c := c); try eassumption.
    + lia.
    + apply Icre; congruence.
    + congruence.
    + rewrite dead_upd, Z.eqb_refl. reflexivity.
    + intros c' N. rewrite dead_upd. destruct (Z.eqb_spec c' c); [contradiction | reflexivity].
  - unfold updZ. destruct (Z.eqb_spec c0 c).
    + subst. split; [intros _; apply Icre; congruence | discriminate].
    + apply Icre.
  - left. match goal with P : s_pc st ?a = PWaiting ?k ?g |- _ => pose proof (Iple a k g P) end. lia.
Qed.

Lemma step_ESkipDead : forall st x st', Inv st -> step st (ESkipDead x) = Some st' -> Inv st'.
Proof.
  intros st x st' I H. inv_step H; try (destruct b); try (destruct md); try (destruct w); destruct I; prep; go; t1.
Qed.

Lemma step_ESwapRun : forall st c st', Inv st -> step st (ESwapRun c) = Some st' -> Inv st'.
Proof.
  intros st c st' I H. inv_step H; destruct I; prep; go; t1.
  all: pcfacts; normH; pcfacts; prep; sat; keys.
  all: try solve [base].
  all: try solve [erewrite live_ext; [eassumption|]; intros; rewrite dead_upd; destruct (Z.eqb_spec c1 c); subst; auto].
  all: try solve [unfold updZ; destruct (Z.eqb_spec c1 c); subst; auto; split; intros; [ match goal with U : forall c, _ <-> In c _ |- _ => apply U end; congruence | congruence ]].
  all: try solve [match goal with A : forall c, s_ctxdone ?s = false -> s_conns ?s c <> None -> @?Q c |- In ?c0 _ \/ _ => apply A; congruence end].
Qed.

Lemma step_ERunDead : forall st c st', Inv st -> step st (ERunDead c) = Some st' -> Inv st'.
Proof.
  intros st c st' I H. inv_step H. dI I.
  prep; go; t1.
  all: pcfacts; normH; pcfacts; prep; sat; keys.
  all: try solve [base].
  all: try solve [match goal with A : forall c, s_ctxdone ?s = false -> s_conns ?s c <> None -> @?Q c |- In ?c0 _ \/ _ => apply A; congruence end].
  - assert (1 <= live (s_conns st) (s_created st)).
    { apply (live_pos _ _ c); [apply Icre; congruence | congruence]. }
    unfold dead_underflow_go. apply Z.ltb_ge. lia.
  - destruct (Iacct c1) as [F|[[k1 F]|[x1 F]]]; try assumption.
    + left. apply removeZ_In. tauto.
    + right; left; eauto.
    + right; right; eauto.
  - erewrite (live_kill (s_conns st)) with (c := c); try eassumption.
    + lia.
    + apply Icre; congruence.
    + congruence.
    + rewrite dead_upd, Z.eqb_refl. reflexivity.
    + intros c' N. rewrite dead_upd. destruct (Z.eqb_spec c' c); [contradiction | reflexivity].
  - unfold updZ. destruct (Z.eqb_spec c1 c).
    + subst. split; [intros _; apply Icre; congruence | discriminate].
    + apply Icre.
  - left. pose proof (Iple x k g H3). lia.
Qed.

Lemma step_ERelease : forall st x c o st', Inv st -> step st (ERelease x c o) = Some st' -> Inv st'.
Proof.
  intros st x c o st' I H. inv_step H; destruct I; prep; go; t1.
  all: pcfacts; normH; pcfacts; prep; sat; keys.
  all: try solve [base].
  match goal with A : forall c, s_ctxdone ?s = false -> s_conns ?s c <> None -> @?Q c |- _ => destruct (A c0 H H0 H1) as [F|[[k1 F]|[x1 F]]] end.
  - left; assumption.
  - right; left; exists k1. unfold updZ. destruct (Z.eqb_spec k1 k); [subst; sat | assumption].
  - destruct (Nat.eq_dec x1 x).
    + subst. rewrite H2 in F. somes. right; left; exists k. unfold updZ. rewrite Z.eqb_refl. reflexivity.
    + right; right. ex1.
Qed.

Lemma step_ECancel : forall st x st', Inv st -> step st (ECancel x) = Some st' -> Inv st'.
Proof.
  intros st x st' I H. inv_step H; try (destruct b); try (destruct md); try (destruct w); destruct I; prep; go; t1.
Qed.

Lemma step_EReady : forall st c st', Inv st -> step st (EReady c) = Some st' -> Inv st'.
Proof.
  intros st c st' I H. inv_step H; destruct I; prep; go; t1.
  all: pcfacts; normH; pcfacts; prep; sat; keys.
  all: try solve [base].
  all: try solve [erewrite live_ext; [eassumption|]; intros; rewrite dead_upd; destruct (Z.eqb_spec c1 c); subst; auto].
  all: try solve [unfold updZ; destruct (Z.eqb_spec c1 c); subst; auto; split; intros; [ match goal with U : forall c, _ <-> In c _ |- _ => apply U end; congruence | congruence ]].
  all: try solve [match goal with A : forall c, s_ctxdone ?s = false -> s_conns ?s c <> None -> @?Q c |- In ?c0 _ \/ _ => apply A; congruence end].
Qed.

Lemma step_ERunExit : forall st c st', Inv st -> step st (ERunExit c) = Some st' -> Inv st'.
Proof.
  intros st c st' I H. inv_step H; destruct I; prep; go; t1.
  all: pcfacts; normH; pcfacts; prep; sat; keys.
  all: try solve [base].
  all: try solve [erewrite live_ext; [eassumption|]; intros; rewrite dead_upd; destruct (Z.eqb_spec c1 c); subst; auto].
  all: try solve [unfold updZ; destruct (Z.eqb_spec c1 c); subst; auto; split; intros; [ match goal with U : forall c, _ <-> In c _ |- _ => apply U end; congruence | congruence ]].
  all: try solve [match goal with A : forall c, s_ctxdone ?s = false -> s_conns ?s c <> None -> @?Q c |- In ?c0 _ \/ _ => apply A; congruence end].
Qed.

Lemma step_ECloseFlag : forall st  st', Inv st -> step st (ECloseFlag ) = Some st' -> Inv st'.
Proof.
  intros st  st' I H. inv_step H; try (destruct b); try (destruct md); try (destruct w); destruct I; prep; go; t1.
Qed.

Lemma step_ECloseCancel : forall st  st', Inv st -> step st (ECloseCancel ) = Some st' -> Inv st'.
Proof.
  intros st  st' I H. inv_step H; try (destruct b); try (destruct md); try (destruct w); destruct I; prep; go; t1.
Qed.

Theorem inv_step_all : forall st e st', Inv st -> step st e = Some st' -> Inv st'.
Proof.
  intros st e st' I H. destruct e.
  - eapply step_EStart; eassumption.
  - eapply step_EStartClosed; eassumption.
  - eapply step_EPop; eassumption.
  - eapply step_ECheck; eassumption.
  - eapply step_ENew; eassumption.
  - eapply step_ENewRefused; eassumption.
  - eapply step_ECreate; eassumption.
  - eapply step_ENewReady; eassumption.
  - eapply step_ENewCancel; eassumption.
  - eapply step_ENewClosed; eassumption.
  - eapply step_ENewDead; eassumption.
  - eapply step_EReg; eassumption.
  - eapply step_EWaitGot; eassumption.
  - eapply step_EWaitStuck; eassumption.
  - eapply step_EWaitCancel; eassumption.
  - eapply step_EWaitClosed; eassumption.
  - eapply step_EGiveDel; eassumption.
  - eapply step_EGiveEmpty; eassumption.
  - eapply step_EGiveGot; eassumption.
  - eapply step_EInvRet; eassumption.
  - eapply step_EDeadBy; eassumption.
  - eapply step_ESkipDead; eassumption.
  - eapply step_ESwapRun; eassumption.
  - eapply step_ERunDead; eassumption.
  - eapply step_ERelease; eassumption.
  - eapply step_ECancel; eassumption.
  - eapply step_EReady; eassumption.
  - eapply step_ERunExit; eassumption.
  - eapply step_ECloseFlag; eassumption.
  - eapply step_ECloseCancel; eassumption.
Qed.

Lemma inv_run : forall l st st', Inv st -> run st l = Some st' -> Inv st'.
Proof.
  induction l as [|e t IH]; simpl; intros st st' I H.
  - congruence.
  - destruct (step st e) eqn:E; [|discriminate]. eapply IH; [|eassumption]. eapply inv_step_all; eassumption.
Qed.

Theorem inv_reachable : forall max st, reachable max st -> Inv st.
Proof. intros max st [l H]. eapply inv_run; [apply inv_init | eassumption]. Qed.

Lemma step_max : forall st e st', step st e = Some st' -> s_max st' = s_max st.
Proof. intros st e st' H. destruct e; inv_step H; try (destruct o; inv_step H); reflexivity. Qed.
Lemma run_max : forall l st st', run st l = Some st' -> s_max st' = s_max st.
Proof.
  induction l as [|e t IH]; simpl; intros st st' H.
  - congruence.
  - destruct (step st e) eqn:E; [|discriminate]. rewrite (IH _ _ H). eapply step_max; eassumption.
Qed.
