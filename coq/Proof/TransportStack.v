(* The transport stack as transport.ObfuscatedListener / the mtproxy dialer build it:
     codec frames  over  obfuscated2  [over  FakeTLS records]  over the connection.
   Composition of the three models (Codec, Obfs2, FakeTls); every layer may cut the bytes it
   passes on in any way. *)
From Coq Require Import ZArith List Bool Lia.
From TD Require Import Lib.GoSem.
From TD Require Model.Codec Model.Obfs2 Model.FakeTls.
From TD Require Proof.Codec Proof.CodecRT Proof.Obfs2 Proof.Obfs2Listen Proof.FakeTls.
Import ListNotations.
Open Scope Z_scope.

Section Stack.
Variable crc : list Z -> Z.
Hypothesis crc_range : forall x, 0 <= crc x < 2 ^ 32.
Variable ks : list Z -> list Z -> Z -> Z.      (* AES-CTR keystream *)
Variable sha256 : list Z -> list Z.

(* codec over obfuscated2: the client announces codec c, writes the frames of [ps] in any number
   of conn.Write calls [ws] on the obfuscated connection; the server gets the ciphertext in any
   deliveries [dl]; behind the obfuscated listener detection picks c and the frames read are ps *)
Lemma stream_over_obfuscated
      (c : Codec.codec) (seq : Z) (rnd : Z -> list Z) (ps : list (list Z)) (W : list Z)
      (fuel_i : nat) (orand : list Z) (dc : Z) (secret hdr : list Z) (cep : Obfs2.endpoint) (orest : list Z)
      (ws : list (list Z)) (dl : list (list Z * bool)) (fuel : nat) :
  c <> Codec.Full ->
  (forall i, length (rnd i) = 4%nat) ->
  Forall (CodecRT.frame_ok c) ps -> (length ps < fuel)%nat ->
  Codec.write_all crc c seq rnd ps = Ok W ->
  concat ws = W ->
  Obfs2.client_handshake ks sha256 fuel_i orand (Obfs2Listen.obf_tag c) dc secret = Ok (hdr, cep, orest) ->
  let X := Obfs2.send_on ks (Obfs2.enc cep) ws in
  concat (map fst dl) = X -> Proof.Obfs2.err_only_last dl ->
  exists p d sep,
    Obfs2.server_accept ks sha256 (hdr ++ X) secret = Ok ((p, d), sep, X) /\
    let plain := Obfs2.recv_on ks (Obfs2.dec sep) dl in
    Codec.detect (Obfs2.replay_tag p ++ plain) = Ok (c, plain) /\
    Codec.read_stream crc c seq fuel plain = (ps, Codec.StopErr Codec.EEof).
Proof.
  intros Hc Hrnd Hok Hfuel HW Hws Hh X HX He.
  assert (length (Obfs2Listen.obf_tag c) = 4%nat) as Hl by (destruct c; reflexivity || contradiction).
  destruct (Proof.Obfs2.session_roundtrip ks sha256 _ _ _ _ _ _ _ _ ws [] dl [] Hl Hh)
    as (sep & Ha & _ & _ & Hrecv & _).
  fold X in Ha, Hrecv. exists (Obfs2Listen.obf_tag c), (dc mod 65536), sep.
  split; [exact Ha|]. cbn zeta. rewrite (Hrecv HX He), Hws.
  split; [apply Obfs2Listen.obf_listener_detect; exact Hc|].
  destruct (CodecRT.stream_roundtrip crc crc_range c rnd Hrnd ps seq fuel Hok Hfuel) as (w & Hw & Hr).
  rewrite HW in Hw. apply CodecRT.ok_inj in Hw. subst w. exact Hr.
Qed.

(* ... and with FakeTLS underneath (mtproxy with an ee-secret): the obfuscated bytes -- header
   first, then the ciphertext of every Write -- go through FakeTLS.Write calls [xs]; the far end
   reads them back with any positive buffer sizes [ks_read] and hands them to the layers above *)
Lemma stream_over_faketls
      (c : Codec.codec) (seq : Z) (rnd : Z -> list Z) (ps : list (list Z)) (W : list Z)
      (fuel_i : nat) (orand : list Z) (dc : Z) (secret hdr : list Z) (cep : Obfs2.endpoint) (orest : list Z)
      (ws xs : list (list Z)) (ks_read : nat -> Z) (fuel_t : nat) (dl : list (list Z * bool)) (fuel : nat) :
  c <> Codec.Full ->
  (forall i, length (rnd i) = 4%nat) ->
  Forall (CodecRT.frame_ok c) ps -> (length ps < fuel)%nat ->
  Codec.write_all crc c seq rnd ps = Ok W ->
  concat ws = W ->
  Obfs2.client_handshake ks sha256 fuel_i orand (Obfs2Listen.obf_tag c) dc secret = Ok (hdr, cep, orest) ->
  let X := Obfs2.send_on ks (Obfs2.enc cep) ws in
  concat xs = hdr ++ X ->
  (forall j, 1 <= ks_read j) -> (length (hdr ++ X) < fuel_t)%nat ->
  concat (map fst dl) = X -> Proof.Obfs2.err_only_last dl ->
  exists T,
    FakeTls.ftls_write_all false xs = Ok T /\
    FakeTls.drain fuel_t ks_read 0 ([], T) = (hdr ++ X, FakeTls.TEof) /\
    exists p d sep,
      Obfs2.server_accept ks sha256 (hdr ++ X) secret = Ok ((p, d), sep, X) /\
      let plain := Obfs2.recv_on ks (Obfs2.dec sep) dl in
      Codec.detect (Obfs2.replay_tag p ++ plain) = Ok (c, plain) /\
      Codec.read_stream crc c seq fuel plain = (ps, Codec.StopErr Codec.EEof).
Proof.
  intros Hc Hrnd Hok Hfuel HW Hws Hh X Hxs Hks Hft HX He.
  destruct (Proof.FakeTls.ftls_stream xs ks_read fuel_t Hks ltac:(rewrite Hxs; exact Hft)) as (T & HT & Hd & _).
  exists T. split; [exact HT|]. split; [rewrite Hd, Hxs; reflexivity|].
  exact (stream_over_obfuscated c seq rnd ps W fuel_i orand dc secret hdr cep orest ws dl fuel
           Hc Hrnd Hok Hfuel HW Hws Hh HX He).
Qed.
End Stack.
