(* Proofs for Model/Cdn.v (C34). *)
From Coq Require Import ZArith List Bool Lia.
From TD Require Import Gen.CdnPlan Model.Cdn.
Import ListNotations.
Open Scope Z_scope.

(* ---------- largestCDNValidLimit ---------- *)

Definition valid_step (s : Z) : Prop :=
  c_cdnMinChunk <= s /\ s mod c_cdnMinChunk = 0 /\ c_cdnMaxChunk mod s = 0.

Lemma lcv_loop_spec : forall fuel size max,
  c_cdnMinChunk <= size -> size mod c_cdnMinChunk = 0 ->
  (Z.to_nat (size / c_cdnMinChunk) <= fuel)%nat ->
  exists s, lcv_loop fuel size max = Some s /\ valid_step s /\ s <= size.
Proof.
  unfold c_cdnMinChunk. induction fuel as [|f IH]; intros size max Hge Hmod Hf.
  - exfalso. assert (1 <= size / 4096) by (apply Z.div_le_lower_bound; lia). lia.
  - cbn [lcv_loop]. unfold lcv_cond, lcv_found, lcv_result, lcv_post, c_cdnMinChunk, c_cdnMaxChunk.
    destruct (Z.geb_spec size 4096); [|lia].
    rewrite Z.rem_mod_nonneg by lia.
    destruct (Z.eqb_spec (1048576 mod size) 0) as [E|E].
    + exists size. split; [reflexivity|]. split; [|lia]. unfold valid_step, c_cdnMinChunk, c_cdnMaxChunk. auto.
    + assert (size <> 4096) as Hne by (intros ->; apply E; reflexivity).
      assert (8192 <= size).
      { apply Z.mod_divide in Hmod; [|lia]. destruct Hmod as [k Hk]. subst size. lia. }
      destruct (IH (size - 4096) max) as (s & Hs & Hv & Hle); try lia.
      * replace (size - 4096) with (size + (-1) * 4096) by lia. rewrite Z.mod_add by lia. exact Hmod.
      * replace (size - 4096) with (size + (-1) * 4096) by lia. rewrite Z.div_add by lia.
        assert (2 <= size / 4096) by (apply Z.div_le_lower_bound; lia). lia.
      * exists s. split; [exact Hs|]. split; [exact Hv|lia].
Qed.

Lemma largest_valid_spec max :
  c_cdnMinChunk <= max -> max mod c_cdnMinChunk = 0 ->
  exists s, largest_valid max = Some s /\ valid_step s /\ s <= max.
Proof.
  intros H1 H2. unfold largest_valid, lcv_init. apply lcv_loop_spec; auto. lia.
Qed.

(* ---------- buildCDNRequestPlan ---------- *)

Fixpoint steps_ok (cur : Z) (steps : list (Z * Z)) : Prop :=
  match steps with
  | [] => True
  | (o, l) :: t =>
      o = cur /\ valid_step l /\
      o / c_cdnMaxChunk = (o + l - 1) / c_cdnMaxChunk /\      (* does not cross a 1 MiB boundary *)
      steps_ok (cur + l) t
  end.
Definition steps_total (steps : list (Z * Z)) : Z := fold_right (fun s acc => snd s + acc) 0 steps.

Lemma plan_loop_spec : forall fuel remaining current,
  0 <= remaining -> remaining mod c_cdnMinChunk = 0 ->
  0 <= current -> current mod c_cdnMinChunk = 0 ->
  (Z.to_nat (remaining / c_cdnMinChunk) <= fuel)%nat ->
  exists steps, plan_loop fuel remaining current = PlanOk steps /\
                steps_ok current steps /\ steps_total steps = remaining.
Proof.
  induction fuel as [|f IH]; intros remaining current Hr Hrm Hc Hcm Hf.
  - assert (remaining = 0) as ->.
    { unfold c_cdnMinChunk in *. destruct (Z.eq_dec remaining 0); [assumption|].
      apply Z.mod_divide in Hrm; [|lia]. destruct Hrm as [k Hk]. subst remaining.
      rewrite Z.div_mul in Hf by lia. lia. }
    cbn. exists []. cbn. auto.
  - cbn [plan_loop]. destruct (Z.gtb_spec remaining 0) as [Hpos|Hz].
    2:{ exists []. cbn. split; [reflexivity|]. split; [exact I|lia]. }
    unfold plan_mb_used, plan_mb_left, plan_clip, plan_no_step.
    unfold c_cdnMinChunk, c_cdnMaxChunk in *.
    rewrite Z.rem_mod_nonneg by lia.
    set (mbLeft := 1048576 - current mod 1048576).
    assert (0 <= current mod 1048576 < 1048576) as Hmb by (apply Z.mod_pos_bound; lia).
    assert (mbLeft mod 4096 = 0) as Hml.
    { unfold mbLeft. pose proof Hcm as Hcm'. apply Z.mod_divide in Hcm'; [|lia]. destruct Hcm' as [k Hk].
      pose proof (Z.div_mod current 1048576 ltac:(lia)) as Hd.
      replace (1048576 - current mod 1048576) with ((256 - (k - 256 * (current / 1048576))) * 4096) by lia.
      apply Z.mod_mul. lia. }
    assert (4096 <= remaining) as Hr4.
    { apply Z.mod_divide in Hrm; [|lia]. destruct Hrm as [k Hk]. subst remaining. lia. }
    assert (4096 <= mbLeft) as Hm4.
    { apply Z.mod_divide in Hml; [|lia]. destruct Hml as [k Hk]. unfold mbLeft in *. lia. }
    set (maxForStep := if remaining >? mbLeft then mbLeft else remaining).
    assert (4096 <= maxForStep /\ maxForStep mod 4096 = 0 /\ maxForStep <= remaining /\ maxForStep <= mbLeft) as (M1 & M2 & M3 & M4).
    { unfold maxForStep. destruct (Z.gtb_spec remaining mbLeft); repeat split; auto; lia. }
    destruct (largest_valid_spec maxForStep) as (step & Hs & Hv & Hle); [exact M1|exact M2|].
    rewrite Hs. destruct Hv as (V1 & V2 & V3). unfold c_cdnMinChunk, c_cdnMaxChunk in *.
    destruct (Z.eqb_spec step 0); [lia|].
    destruct (IH (remaining - step) (current + step)) as (steps & Hp & Hok & Htot); try lia.
    + apply Z.mod_divide in Hrm; [|lia]. apply Z.mod_divide in V2; [|lia]. apply Z.mod_divide; [lia|].
      apply Z.divide_sub_r; assumption.
    + apply Z.mod_divide in Hcm; [|lia]. apply Z.mod_divide in V2; [|lia]. apply Z.mod_divide; [lia|].
      apply Z.divide_add_r; assumption.
    + assert (Z.to_nat ((remaining - step) / 4096) < Z.to_nat (remaining / 4096))%nat; [|lia].
      apply Z.mod_divide in Hrm; [|lia]. destruct Hrm as [k Hk]. apply Z.mod_divide in V2; [|lia]. destruct V2 as [j Hj].
      subst remaining step. replace (k * 4096 - j * 4096) with ((k - j) * 4096) by lia. rewrite !Z.div_mul by lia. lia.
    + rewrite Hp. exists ((current, step) :: steps). split; [reflexivity|]. split.
      * cbn [steps_ok]. split; [reflexivity|]. split; [unfold valid_step, c_cdnMinChunk, c_cdnMaxChunk; auto|].
        split; [|exact Hok]. unfold c_cdnMaxChunk.
        assert (step <= mbLeft) by lia. unfold mbLeft in *.
        pose proof (Z.div_mod current 1048576 ltac:(lia)) as Hd.
        apply Z.div_unique with (r := current mod 1048576 + step - 1); lia.
      * cbn [steps_total fold_right snd]. fold (steps_total steps). lia.
Qed.

Theorem build_plan_spec offset limit :
  0 <= offset -> 0 < limit -> offset mod c_cdnMinChunk = 0 -> limit mod c_cdnMinChunk = 0 ->
  exists steps, build_plan offset limit = PlanOk steps /\ steps_ok offset steps /\ steps_total steps = limit.
Proof.
  intros Ho Hl Hom Hlm. unfold build_plan, plan_bad_limit, plan_bad_offset, plan_unaligned_offset, plan_unaligned_limit.
  unfold c_cdnMinChunk in *.
  destruct (Z.leb_spec limit 0); [lia|]. destruct (Z.ltb_spec offset 0); [lia|].
  rewrite !Z.rem_mod_nonneg by lia. rewrite Hom, Hlm. cbn [Z.eqb negb].
  apply plan_loop_spec; unfold c_cdnMinChunk; auto; lia.
Qed.

(* invalid ranges are refused *)
Lemma build_plan_rejects offset limit :
  limit <= 0 \/ offset < 0 \/ Z.rem offset c_cdnMinChunk <> 0 \/ Z.rem limit c_cdnMinChunk <> 0 ->
  exists code, build_plan offset limit = PlanErr code.
Proof.
  intros H. unfold build_plan, plan_bad_limit, plan_bad_offset, plan_unaligned_offset, plan_unaligned_limit.
  destruct (Z.leb_spec limit 0); [eauto|]. destruct (Z.ltb_spec offset 0); [eauto|].
  destruct (Z.eqb_spec (Z.rem offset c_cdnMinChunk) 0); cbn [negb]; [|eauto].
  destruct (Z.eqb_spec (Z.rem limit c_cdnMinChunk) 0); cbn [negb]; [|eauto].
  exfalso. destruct H as [H|[H|[H|H]]]; lia.
Qed.

(* ---------- CTR counter ---------- *)

Theorem ctr_matches_spec ivz offset k :
  0 <= ivz < two128 -> 0 <= offset -> 0 <= k -> offset / 16 + k < two32 ->
  code_counter ivz offset k = spec_counter ivz (offset / 16 + k).
Proof.
  unfold code_counter, spec_counter, iv_with_offset, ctr_low32, two32, two128. intros Hiv Ho Hk Hlt.
  rewrite Z.quot_div_nonneg by lia.
  assert (0 <= offset / 16) by (apply Z.div_pos; lia).
  rewrite (Z.mod_small (offset / 16)) by lia.
  assert (0 <= ivz / 4294967296 < 79228162514264337593543950336).
  { split; [apply Z.div_pos; lia|apply Z.div_lt_upper_bound; lia]. }
  rewrite Z.mod_small by nia. lia.
Qed.

(* when the low 32 bits overflow, Go's CTR carries into the upper 96 bits of the IV *)
Theorem ctr_carry ivz offset k :
  0 <= ivz < two128 -> 0 <= offset -> offset / 16 < two32 -> 0 <= k -> two32 <= offset / 16 + k < 2 * two32 ->
  code_counter ivz offset k = ((ivz / two32 + 1) * two32 + (offset / 16 + k - two32)) mod two128.
Proof.
  unfold code_counter, iv_with_offset, ctr_low32, two32, two128. intros Hiv Ho Hlt Hk Hc.
  rewrite Z.quot_div_nonneg by lia.
  assert (0 <= offset / 16) by (apply Z.div_pos; lia).
  rewrite (Z.mod_small (offset / 16)) by lia. f_equal. lia.
Qed.

(* offsets of 64 GiB and more: uint32(offset/16) wraps *)
Theorem ctr_low32_wraps offset : 0 <= offset -> ctr_low32 offset = (offset / 16) mod two32.
Proof. intros H. unfold ctr_low32, two32. rewrite Z.quot_div_nonneg by lia. reflexivity. Qed.

(* ---------- verifyChunk ---------- *)

Lemma bytes_eqb_eq : forall a b, bytes_eqb a b = true -> a = b.
Proof.
  induction a as [|x a IH]; intros [|y b] H; cbn in H; try discriminate; [reflexivity|].
  apply andb_true_iff in H. destruct H as [H1 H2]. apply Z.eqb_eq in H1. f_equal; auto.
Qed.

Lemma nth_skipn_nat {B} (d : B) : forall n (l : list B) j, nth j (skipn n l) d = nth (n + j) l d.
Proof.
  induction n as [|n IH]; intros l j; [reflexivity|].
  destruct l; cbn; [destruct j; reflexivity|apply IH].
Qed.

Lemma nth_firstn_nat {B} (d : B) : forall n (l : list B) j, (j < n)%nat -> nth j (firstn n l) d = nth j l d.
Proof.
  induction n as [|n IH]; intros l j H; [lia|].
  destruct l; [destruct j; reflexivity|]. destruct j; [reflexivity|]. cbn. apply IH. lia.
Qed.

Lemma slice_len l from to : 0 <= from -> from <= to -> to <= zlen l -> zlen (slice l from to) = to - from.
Proof.
  intros H1 H2 H3. unfold slice, zlen in *. rewrite firstn_length, skipn_length. lia.
Qed.

Lemma slice_nth l from to j :
  0 <= from -> 0 <= j < to - from ->
  nth (Z.to_nat j) (slice l from to) 0 = nth (Z.to_nat (from + j)) l 0.
Proof.
  intros H1 H2. unfold slice. rewrite nth_firstn_nat by lia. rewrite nth_skipn_nat. f_equal. lia.
Qed.

Lemma patch_len data from p : 0 <= from -> from + zlen p <= zlen data -> zlen (patch data from p) = zlen data.
Proof.
  intros H1 H2. unfold patch, zlen in *. rewrite !app_length, firstn_length, skipn_length. lia.
Qed.

Lemma patch_nth_in data from p j :
  0 <= from -> from + zlen p <= zlen data -> from <= j < from + zlen p ->
  nth (Z.to_nat j) (patch data from p) 0 = nth (Z.to_nat (j - from)) p 0.
Proof.
  intros H1 H2 H3. unfold patch, zlen in *.
  rewrite app_nth2; rewrite firstn_length; [|lia].
  rewrite app_nth1 by lia. f_equal. lia.
Qed.

Lemma patch_nth_out data from p j :
  0 <= from -> from + zlen p <= zlen data -> 0 <= j -> (j < from \/ from + zlen p <= j) ->
  nth (Z.to_nat j) (patch data from p) 0 = nth (Z.to_nat j) data 0.
Proof.
  intros H1 H2 H0 H3. unfold patch, zlen in *. destruct H3 as [H3|H3].
  - rewrite app_nth1 by (rewrite firstn_length; lia). apply nth_firstn_nat. lia.
  - rewrite app_nth2; rewrite firstn_length; [|lia].
    rewrite app_nth2 by lia. rewrite nth_skipn_nat. f_equal. lia.
Qed.

Section VerifyProofs.
Variable sha : list Z -> list Z.
Variable hash_for : Z -> option hwin.
Variable fetch : hwin -> list Z.
(* what c.hash guarantees: the window returned for an offset starts at or before it *)
Hypothesis hash_for_contains : forall o w, hash_for o = Some w -> w_off w <= o.

Notation vc_loop := (vc_loop sha hash_for fetch).

(* byte x of the chunk lies in a window of the server's hash list whose data V hashes to the
   server's hash, and equals the corresponding byte of V *)
Definition cov (data : list Z) (cs x : Z) : Prop :=
  exists w V, (exists o, hash_for o = Some w) /\ sha V = w_hash w /\
              w_off w <= x < w_off w + zlen V /\
              nth (Z.to_nat (x - cs)) data 0 = nth (Z.to_nat (x - w_off w)) V 0.

Lemma vc_loop_sound : forall fuel cs ce short current data data',
  zlen data = ce - cs -> cs <= current ->
  (forall x, cs <= x < current -> x < ce -> cov data cs x) ->
  vc_loop fuel cs ce short current data = Some data' ->
  zlen data' = ce - cs /\ forall x, cs <= x < ce -> cov data' cs x.
Proof.
  induction fuel as [|f IH]; intros cs ce short current data data' Hlen Hcur Hinv H.
  - cbn in H. destruct (Z.ltb_spec current ce); [discriminate|]. inversion H; subst.
    split; [exact Hlen|]. intros x Hx. apply Hinv; lia.
  - cbn [Cdn.vc_loop] in H. destruct (Z.ltb_spec current ce) as [Hlt|Hge].
    2:{ inversion H; subst. split; [exact Hlen|]. intros x Hx. apply Hinv; lia. }
    destruct (hash_for current) as [w|] eqn:Ehf; [|discriminate].
    pose proof (hash_for_contains _ _ Ehf) as Hws.
    destruct (Z.leb_spec (w_limit w) 0); [discriminate|].
    destruct (Z.leb_spec (w_off w + w_limit w) current); [discriminate|].
    set (we := w_off w + w_limit w) in *. set (ws := w_off w) in *.
    destruct ((ws >=? cs) && (we <=? ce)) eqn:C1; cbv beta iota in H.
    + (* whole window inside the chunk *)
      apply andb_true_iff in C1. destruct C1 as [C1a C1b]. apply Z.geb_le in C1a. apply Z.leb_le in C1b.
      destruct (bytes_eqb (sha (slice data (ws - cs) (we - cs))) (w_hash w)) eqn:Eh; [|discriminate].
      apply bytes_eqb_eq in Eh.
      apply (IH cs ce short we data data' Hlen ltac:(lia)); [|exact H].
      intros x Hx Hxe. destruct (Z.lt_ge_cases x current) as [Hb|Hb]; [apply Hinv; lia|].
      exists w, (slice data (ws - cs) (we - cs)). split; [eauto|]. split; [exact Eh|].
      rewrite slice_len by lia. fold ws. split; [lia|].
      rewrite slice_nth by lia. f_equal. lia.
    + destruct (short && (ws >=? cs) && (ws <? ce) && (we >? ce)) eqn:C2; cbv beta iota in H.
      * (* final short chunk *)
        apply andb_true_iff in C2. destruct C2 as [C2 C2d]. apply andb_true_iff in C2. destruct C2 as [C2 C2c].
        apply andb_true_iff in C2. destruct C2 as [_ C2b]. apply Z.geb_le in C2b. apply Z.ltb_lt in C2c.
        destruct (bytes_eqb (sha (skipn (Z.to_nat (ws - cs)) data)) (w_hash w)) eqn:Eh; [|discriminate].
        apply bytes_eqb_eq in Eh. inversion H; subst data'. split; [exact Hlen|].
        intros x Hx. destruct (Z.lt_ge_cases x current) as [Hb|Hb]; [apply Hinv; lia|].
        exists w, (skipn (Z.to_nat (ws - cs)) data). split; [eauto|]. split; [exact Eh|].
        assert (zlen (skipn (Z.to_nat (ws - cs)) data) = ce - ws) as Hl
          by (unfold zlen in *; rewrite skipn_length; lia).
        rewrite Hl. fold ws. split; [lia|]. rewrite nth_skipn_nat. f_equal. lia.
      * (* window crosses the chunk *)
        unfold load_window in H. set (wd := fetch w) in *.
        destruct ((zlen wd =? 0) || (zlen wd >? w_limit w)) eqn:Ew; cbv beta iota in H; [discriminate|].
        apply orb_false_iff in Ew. destruct Ew as [Ew1 Ew2]. apply Z.eqb_neq in Ew1.
        assert (zlen wd <= w_limit w) as Ew2' by (destruct (Z.gtb_spec (zlen wd) (w_limit w)); [discriminate|lia]).
        destruct (bytes_eqb (sha wd) (w_hash w)) eqn:Eh; cbv beta iota in H; [|discriminate]. apply bytes_eqb_eq in Eh.
        set (os := Z.max cs ws) in *. set (wde := ws + zlen wd) in *. set (oe := Z.min ce wde) in *.
        destruct (Z.leb_spec oe os); [discriminate|].
        destruct ((wde <? we) && (ce >? wde)) eqn:F1; cbv beta iota in H; [discriminate|].
        destruct (short && (wde >? ce)) eqn:F2; cbv beta iota in H; [discriminate|].
        assert (0 <= zlen wd) by (unfold zlen; lia).
        assert (wde >= we \/ ce <= wde) as Hfix.
        { apply andb_false_iff in F1. destruct F1 as [F1|F1].
          - apply Z.ltb_ge in F1. lia.
          - right. destruct (Z.gtb_spec ce wde); [discriminate|lia]. }
        set (pt := slice wd (os - ws) (oe - ws)) in *.
        assert (zlen pt = oe - os) as Hpl by (unfold pt; rewrite slice_len; lia).
        assert (zlen (patch data (os - cs) pt) = ce - cs) as Hlen' by (rewrite patch_len; lia).
        apply (IH cs ce short we _ data' Hlen' ltac:(lia)); [|exact H].
        intros x Hx Hxe.
        destruct (Z.lt_ge_cases x os) as [Hlo|Hlo].
        { (* before the patched range: unchanged, and below current *)
          assert (x < current) by lia.
          destruct (Hinv x ltac:(lia) Hxe) as (w0 & V0 & Ho & Hs & Hr & Hn).
          exists w0, V0. repeat split; auto; try lia. rewrite <- Hn. apply patch_nth_out; lia. }
        (* inside the patched range: x < oe because of the two fixes' first one *)
        assert (x < oe) as Hhi by (unfold oe; lia).
        exists w, wd. split; [eauto|]. split; [exact Eh|]. fold ws. split; [lia|].
        rewrite patch_nth_in by lia. unfold pt. rewrite slice_nth by lia. f_equal. lia.
Qed.

(* cdn.verifyChunk: an accepted chunk has the length of the received one and every byte of it
   lies in a hash-verified window *)
Theorem verify_chunk_sound offset lim data data' :
  verify_chunk sha hash_for fetch offset lim data = Some data' ->
  zlen data' = zlen data /\ forall x, offset <= x < offset + zlen data -> cov data' offset x.
Proof.
  unfold verify_chunk. destruct data as [|b0 d0] eqn:Ed.
  - intros H; inversion H; subst. split; [reflexivity|]. intros x Hx. cbn in Hx. lia.
  - rewrite <- Ed. intros H.
    assert (zlen data = offset + zlen data - offset) as E1 by lia.
    assert (forall x, offset <= x < offset -> x < offset + zlen data -> cov data offset x) as E3 by (intros; lia).
    destruct (vc_loop_sound _ _ _ _ _ _ _ E1 (Z.le_refl offset) E3 H) as [H1 H2].
    split; [lia|exact H2].
Qed.

(* genuineness under an explicit collision hypothesis *)
Section Genuine.
Variable file : list Z.
Definition gen (w : hwin) : list Z := slice file (w_off w) (Z.min (w_off w + w_limit w) (zlen file)).
(* the master DC's hash list: windows inside the file, hashing the file's bytes *)
Hypothesis hashes_honest : forall o w, hash_for o = Some w ->
  0 <= w_off w < zlen file /\ 0 < w_limit w /\ w_hash w = sha (gen w).
(* no second preimage for the genuine windows *)
Hypothesis no_collision : forall o w V, hash_for o = Some w -> sha V = sha (gen w) -> V = gen w.

Theorem verify_chunk_genuine offset lim data data' :
  0 <= offset ->
  verify_chunk sha hash_for fetch offset lim data = Some data' ->
  (0 < zlen data' -> offset + zlen data' <= zlen file) /\
  forall x, offset <= x < offset + zlen data' -> nth (Z.to_nat (x - offset)) data' 0 = nth (Z.to_nat x) file 0.
Proof.
  intros Hoff H. destruct (verify_chunk_sound _ _ _ _ H) as [Hl Hc]. rewrite Hl.
  assert (forall x, offset <= x < offset + zlen data ->
                    x < zlen file /\ nth (Z.to_nat (x - offset)) data' 0 = nth (Z.to_nat x) file 0) as Hall.
  { intros x Hx. destruct (Hc x Hx) as (w & V & [o Ho] & Hs & Hr & Hn).
    destruct (hashes_honest _ _ Ho) as (Hw1 & Hw2 & Hw3).
    assert (V = gen w) as -> by (apply (no_collision o); [exact Ho|congruence]).
    unfold gen in *. rewrite slice_len in Hr by lia. split; [lia|].
    rewrite Hn. rewrite slice_nth by lia. f_equal. lia. }
  split.
  - intros Hpos. destruct (Hall (offset + zlen data - 1) ltac:(lia)) as [Hx _]. lia.
  - intros x Hx. apply Hall. exact Hx.
Qed.

(* where an accepted SHORT chunk can end: at the end of the file, or exactly at the nominal end of
   a hash window (the case in which the client cannot tell a truncated response from the file
   tail without asking the master DC: known finding cdn-truncated-at-window-boundary-accepted) *)
Lemma vc_loop_tail : forall fuel cs ce current data data',
  zlen data = ce - cs -> cs <= current -> current < ce ->
  vc_loop fuel cs ce true current data = Some data' ->
  ce = zlen file \/ exists o w, hash_for o = Some w /\ ce = w_off w + w_limit w.
Proof.
  induction fuel as [|f IH]; intros cs ce current data data' Hlen Hcur Hlt H.
  - cbn in H. destruct (Z.ltb_spec current ce); [discriminate|lia].
  - cbn [Cdn.vc_loop] in H. destruct (Z.ltb_spec current ce) as [_|Hge]; [|lia].
    destruct (hash_for current) as [w|] eqn:Ehf; [|discriminate].
    pose proof (hash_for_contains _ _ Ehf) as Hws.
    destruct (hashes_honest _ _ Ehf) as (Hw1 & Hw2 & Hw3).
    destruct (Z.leb_spec (w_limit w) 0); [discriminate|].
    destruct (Z.leb_spec (w_off w + w_limit w) current); [discriminate|].
    set (we := w_off w + w_limit w) in *. set (ws := w_off w) in *.
    destruct ((ws >=? cs) && (we <=? ce)) eqn:C1; cbv beta iota in H.
    + apply andb_true_iff in C1. destruct C1 as [C1a C1b]. apply Z.geb_le in C1a. apply Z.leb_le in C1b.
      destruct (bytes_eqb (sha (slice data (ws - cs) (we - cs))) (w_hash w)) eqn:Eh; [|discriminate].
      destruct (Z.lt_ge_cases we ce) as [Hc|Hc].
      * apply (IH cs ce we data data' Hlen ltac:(lia) Hc H).
      * right. exists current, w. split; [exact Ehf|]. fold we. lia.
    + cbn [andb] in H. destruct ((ws >=? cs) && (ws <? ce) && (we >? ce)) eqn:C2; cbv beta iota in H.
      * apply andb_true_iff in C2. destruct C2 as [C2 C2d]. apply andb_true_iff in C2. destruct C2 as [C2b C2c].
        apply Z.geb_le in C2b. apply Z.ltb_lt in C2c. apply Z.gtb_lt in C2d.
        destruct (bytes_eqb (sha (skipn (Z.to_nat (ws - cs)) data)) (w_hash w)) eqn:Eh; [|discriminate].
        apply bytes_eqb_eq in Eh. rewrite Hw3 in Eh. apply (no_collision _ _ _ Ehf) in Eh.
        assert (zlen (skipn (Z.to_nat (ws - cs)) data) = ce - ws) as Hl
          by (unfold zlen in *; rewrite skipn_length; lia).
        rewrite Eh in Hl. unfold gen in Hl. rewrite slice_len in Hl by lia. fold ws we in Hl. left. lia.
      * unfold load_window in H. set (wd := fetch w) in *.
        destruct ((zlen wd =? 0) || (zlen wd >? w_limit w)) eqn:Ew; cbv beta iota in H; [discriminate|].
        apply orb_false_iff in Ew. destruct Ew as [Ew1 Ew2]. apply Z.eqb_neq in Ew1.
        destruct (bytes_eqb (sha wd) (w_hash w)) eqn:Eh; cbv beta iota in H; [|discriminate]. apply bytes_eqb_eq in Eh.
        rewrite Hw3 in Eh. apply (no_collision _ _ _ Ehf) in Eh.
        set (os := Z.max cs ws) in *. set (wde := ws + zlen wd) in *. set (oe := Z.min ce wde) in *.
        destruct (Z.leb_spec oe os); [discriminate|].
        destruct ((wde <? we) && (ce >? wde)) eqn:F1; cbv beta iota in H; [discriminate|].
        destruct (wde >? ce) eqn:F2; cbv beta iota in H; [discriminate|].
        assert (wde <= ce) by (destruct (Z.gtb_spec wde ce); [discriminate|lia]).
        assert (0 <= zlen wd) by (unfold zlen; lia).
        assert (zlen wd = Z.min we (zlen file) - ws) as Hwl.
        { rewrite Eh. unfold gen. rewrite slice_len by lia. reflexivity. }
        destruct (Z.lt_ge_cases we ce) as [Hc|Hc].
        { set (pt := slice wd (os - ws) (oe - ws)) in *.
          assert (zlen pt = oe - os) as Hpl by (unfold pt; rewrite slice_len; lia).
          assert (zlen (patch data (os - cs) pt) = ce - cs) as Hlen' by (rewrite patch_len; lia).
          assert (cs <= we) as Hcw by lia.
          exact (IH cs ce we _ data' Hlen' Hcw Hc H). }
        (* we >= ce and wde <= ce: the chunk ends at the end of the verified window data *)
        apply andb_false_iff in F1. destruct F1 as [F1|F1].
        { apply Z.ltb_ge in F1. right. exists current, w. split; [exact Ehf|]. fold we. lia. }
        { assert (ce <= wde) by (destruct (Z.gtb_spec ce wde); [discriminate|lia]).
          assert (ce = wde) by lia. unfold wde in *.
          destruct (Z.le_gt_cases we (zlen file)).
          - right. exists current, w. split; [exact Ehf|]. fold we. lia.
          - left. lia. }
Qed.

Theorem verify_chunk_tail offset lim data data' :
  0 < zlen data < lim ->
  verify_chunk sha hash_for fetch offset lim data = Some data' ->
  offset + zlen data = zlen file \/
  exists o w, hash_for o = Some w /\ offset + zlen data = w_off w + w_limit w.
Proof.
  intros Hl H. unfold verify_chunk in H. destruct data as [|b0 d0] eqn:Ed; [unfold zlen in Hl; cbn in Hl; lia|].
  rewrite <- Ed in *.
  assert ((lim >? 0) && (zlen data <? lim) = true) as Hs.
  { apply andb_true_iff. split; [apply Z.gtb_lt; lia|apply Z.ltb_lt; lia]. }
  rewrite Hs in H.
  assert (zlen data = offset + zlen data - offset) as E1 by lia.
  exact (vc_loop_tail _ _ _ _ _ _ E1 (Z.le_refl offset) ltac:(lia) H).
Qed.
End Genuine.
End VerifyProofs.

(* ---------- the truncation witness (completeness does not hold) ---------- *)
Definition tw0 : hwin := {| w_off := 0; w_limit := 2; w_hash := [1; 2] |}.
Definition tw1 : hwin := {| w_off := 2; w_limit := 2; w_hash := [3; 4] |}.
Definition t_hash_for (o : Z) : option hwin := if o <? 0 then None else if o <? 2 then Some tw0 else if o <? 4 then Some tw1 else None.
Definition t_sha (l : list Z) : list Z := l.       (* an injective "hash": no collisions at all *)
Definition t_file : list Z := [1; 2; 3; 4].
Lemma truncation_witness :
  verify_chunk t_sha t_hash_for (fun _ => []) 0 4 [1; 2] = Some [1; 2].
Proof. reflexivity. Qed.

(* every step of a plan starts on the 4 KiB grid *)
Lemma steps_aligned : forall steps cur,
  cur mod c_cdnMinChunk = 0 -> steps_ok cur steps -> Forall (fun s => fst s mod c_cdnMinChunk = 0) steps.
Proof.
  induction steps as [|[o l] t IH]; intros cur Hc H; constructor.
  - cbn in *. destruct H as (-> & _). exact Hc.
  - cbn in H. destruct H as (_ & (V1 & V2 & V3) & _ & Hok). apply (IH (cur + l)); [|exact Hok].
    unfold c_cdnMinChunk in *. rewrite Z.add_mod, Hc, V2 by lia. reflexivity.
Qed.

(* ---------- honest run: genuine data is accepted unchanged ---------- *)

Lemma bytes_eqb_refl : forall a, bytes_eqb a a = true.
Proof. induction a as [|x a IH]; cbn; [reflexivity|]. rewrite Z.eqb_refl, IH. reflexivity. Qed.

Lemma firstn_firstn_min {B} : forall a b (l : list B), firstn a (firstn b l) = firstn (Nat.min a b) l.
Proof.
  induction a as [|a IH]; intros b l; [reflexivity|].
  destruct b; [destruct l; reflexivity|]. destruct l; [reflexivity|]. cbn. f_equal. apply IH.
Qed.
Lemma skipn_firstn_comm' {B} : forall a b (l : list B), skipn a (firstn b l) = firstn (b - a) (skipn a l).
Proof.
  induction a as [|a IH]; intros b l; [cbn; rewrite Nat.sub_0_r; reflexivity|].
  destruct b; [destruct l; reflexivity|]. destruct l; [cbn; rewrite firstn_nil; reflexivity|]. cbn. apply IH.
Qed.
Lemma skipn_skipn' {B} : forall a b (l : list B), skipn a (skipn b l) = skipn (b + a) l.
Proof.
  intros a b; revert a. induction b as [|b IH]; intros a l; [reflexivity|].
  destruct l; cbn; [destruct a; reflexivity|apply IH].
Qed.

(* a slice of a slice *)
Lemma slice_slice l a b c d :
  0 <= a -> 0 <= c -> c <= d -> a + d <= b ->
  slice (slice l a b) c d = slice l (a + c) (a + d).
Proof.
  intros Ha Hc Hcd Hd. unfold slice.
  rewrite skipn_firstn_comm', firstn_firstn_min, skipn_skipn'. f_equal; [lia|]. f_equal. lia.
Qed.

Lemma skipn_slice l a b c : 0 <= a -> 0 <= c -> a + c <= b -> skipn (Z.to_nat c) (slice l a b) = slice l (a + c) b.
Proof.
  intros Ha Hc Hb. unfold slice. rewrite skipn_firstn_comm', skipn_skipn'. f_equal; [lia|]. f_equal. lia.
Qed.

Lemma patch_slice_id l from to : 0 <= from -> from <= to -> to <= zlen l -> patch l from (slice l from to) = l.
Proof.
  intros H1 H2 H3. unfold patch, slice, zlen in *.
  rewrite firstn_length, skipn_length.
  replace (Z.to_nat from + Nat.min (Z.to_nat (to - from)) (length l - Z.to_nat from))%nat with (Z.to_nat to) by lia.
  rewrite <- (firstn_skipn (Z.to_nat from) l) at 4.
  f_equal.
  rewrite <- (firstn_skipn (Z.to_nat (to - from)) (skipn (Z.to_nat from) l)) at 2.
  f_equal. rewrite skipn_skipn'. f_equal. lia.
Qed.

Section HonestRun.
Variable sha : list Z -> list Z.
Variable hash_for : Z -> option hwin.
Variable fetch : hwin -> list Z.
Variable file : list Z.
Notation size := (zlen file).
(* the client's hash list covers the file with windows that contain the offset they are looked up for
   and hash the file's bytes; whole-window requests are answered with the file's bytes *)
Hypothesis hashes_cover : forall o, 0 <= o < size ->
  exists w, hash_for o = Some w /\ 0 <= w_off w <= o /\ o < w_off w + w_limit w /\ w_hash w = sha (gen file w).
Hypothesis fetch_honest : forall w, fetch w = gen file w.

Lemma vc_loop_honest : forall fuel cs ce short current,
  0 <= cs -> cs <= current -> ce <= size -> (short = true -> ce = size) ->
  (Z.to_nat (ce - current) <= fuel)%nat ->
  vc_loop sha hash_for fetch fuel cs ce short current (slice file cs ce) = Some (slice file cs ce).
Proof.
  induction fuel as [|f IH]; intros cs ce short current Hcs Hcur Hce Hshort Hf.
  - cbn. destruct (Z.ltb_spec current ce); [lia|reflexivity].
  - cbn [Cdn.vc_loop]. destruct (Z.ltb_spec current ce) as [Hlt|]; [|reflexivity].
    destruct (hashes_cover current ltac:(lia)) as (w & Ehf & Hw1 & Hw2 & Hw3). rewrite Ehf.
    destruct (Z.leb_spec (w_limit w) 0); [lia|].
    destruct (Z.leb_spec (w_off w + w_limit w) current); [lia|].
    set (we := w_off w + w_limit w) in *. set (ws := w_off w) in *.
    set (data := slice file cs ce).
    assert (zlen data = ce - cs) as Hdl by (unfold data; rewrite slice_len; lia).
    destruct ((ws >=? cs) && (we <=? ce)) eqn:C1.
    + apply andb_true_iff in C1. destruct C1 as [C1a C1b]. apply Z.geb_le in C1a. apply Z.leb_le in C1b.
      assert (slice data (ws - cs) (we - cs) = gen file w) as ->.
      { unfold data. rewrite slice_slice by lia. unfold gen. fold ws we. rewrite Z.min_l by lia. f_equal; lia. }
      rewrite Hw3, bytes_eqb_refl. apply IH; auto; lia.
    + destruct (short && (ws >=? cs) && (ws <? ce) && (we >? ce)) eqn:C2.
      * apply andb_true_iff in C2. destruct C2 as [C2 C2d]. apply andb_true_iff in C2. destruct C2 as [C2 C2c].
        apply andb_true_iff in C2. destruct C2 as [C2a C2b]. apply Z.geb_le in C2b. apply Z.ltb_lt in C2c. apply Z.gtb_lt in C2d.
        specialize (Hshort C2a).
        assert (skipn (Z.to_nat (ws - cs)) data = gen file w) as ->.
        { unfold data. rewrite skipn_slice by lia. unfold gen. fold ws we. rewrite Z.min_r by lia. f_equal; lia. }
        rewrite Hw3, bytes_eqb_refl. reflexivity.
      * unfold load_window. rewrite fetch_honest.
        assert (zlen (gen file w) = Z.min we size - ws) as Hgl by (unfold gen; rewrite slice_len; lia).
        destruct ((zlen (gen file w) =? 0) || (zlen (gen file w) >? w_limit w)) eqn:Ew.
        { exfalso. apply orb_true_iff in Ew. destruct Ew as [Ew|Ew]; [apply Z.eqb_eq in Ew|apply Z.gtb_lt in Ew]; lia. }
        rewrite Hw3, bytes_eqb_refl. rewrite Hgl.
        set (os := Z.max cs ws). set (wde := ws + (Z.min we size - ws)). set (oe := Z.min ce wde).
        destruct (Z.leb_spec oe os); [unfold oe, wde, os in *; lia|].
        assert ((wde <? we) && (ce >? wde) = false) as ->.
        { apply andb_false_iff. destruct (Z.ltb_spec wde we); [right|left; reflexivity].
          destruct (Z.gtb_spec ce wde); [unfold wde in *; lia|reflexivity]. }
        assert (short && (wde >? ce) = false) as ->.
        { destruct short; [|reflexivity]. specialize (Hshort eq_refl). cbn.
          destruct (Z.gtb_spec wde ce); [unfold wde in *; lia|reflexivity]. }
        assert (patch data (os - cs) (slice (gen file w) (os - ws) (oe - ws)) = data) as ->.
        { unfold gen. fold ws we. rewrite slice_slice by (unfold os, oe, wde in *; lia).
          replace (ws + (os - ws)) with os by lia. replace (ws + (oe - ws)) with oe by lia.
          replace (slice file os oe) with (slice data (os - cs) (oe - cs)).
          - apply patch_slice_id; unfold os, oe, wde in *; lia.
          - unfold data. rewrite slice_slice by (unfold os, oe, wde in *; lia). f_equal; lia. }
        apply IH; auto; lia.
Qed.

(* an honest answer -- the file's bytes for [offset, offset+limit), cut at the end of the file -- passes
   verifyChunk unchanged *)
Theorem verify_chunk_honest offset lim :
  0 <= offset < size -> 0 < lim ->
  let data := slice file offset (Z.min (offset + lim) size) in
  verify_chunk sha hash_for fetch offset lim data = Some data.
Proof.
  intros Ho Hl. cbv zeta.
  remember (slice file offset (Z.min (offset + lim) size)) as d eqn:Ed0.
  assert (zlen d = Z.min (offset + lim) size - offset) as Hdl by (subst d; rewrite slice_len; lia).
  unfold verify_chunk. destruct d as [|b0 d0].
  { exfalso. unfold zlen in *. cbn in Hdl. lia. }
  rewrite Hdl.
  replace (offset + (Z.min (offset + lim) size - offset)) with (Z.min (offset + lim) size) by lia.
  rewrite Ed0.
  apply vc_loop_honest.
  - lia.
  - lia.
  - lia.
  - intros Hs. apply andb_true_iff in Hs. destruct Hs as [_ Hs]. apply Z.ltb_lt in Hs. lia.
  - rewrite <- Ed0. unfold zlen in *. lia.
Qed.
End HonestRun.

(* CTR is an involution: what the CDN encrypted with the documented counters decrypts to itself *)
Lemma xor_bytes_involutive : forall a k, (length a <= length k)%nat -> xor_bytes (xor_bytes a k) k = a.
Proof.
  induction a as [|x a IH]; intros [|y k] H; cbn in *; try lia; try reflexivity.
  f_equal; [rewrite Z.lxor_assoc, Z.lxor_nilpotent, Z.lxor_0_r; reflexivity|apply IH; lia].
Qed.
Lemma keystream_length E n c k : (forall z, length (E z) = 16%nat) -> length (keystream E n c k) = (16 * n)%nat.
Proof.
  intros HE. revert k. induction n as [|n IH]; intros k; [reflexivity|].
  cbn [keystream]. rewrite app_length, HE, IH. lia.
Qed.
Lemma xor_bytes_length : forall a k, (length a <= length k)%nat -> length (xor_bytes a k) = length a.
Proof. induction a as [|x a IH]; intros [|y k] H; cbn in *; try lia; try reflexivity. f_equal. apply IH; lia. Qed.
Theorem decrypt_involutive E ivz offset src :
  (forall z, length (E z) = 16%nat) -> decrypt E ivz offset (decrypt E ivz offset src) = src.
Proof.
  intros HE. unfold decrypt.
  assert (length src <= length (keystream E (S (length src / 16)) (iv_with_offset ivz offset) 0))%nat as Hl.
  { rewrite keystream_length by exact HE. pose proof (Nat.div_mod (length src) 16 ltac:(lia)).
    pose proof (Nat.mod_upper_bound (length src) 16 ltac:(lia)). lia. }
  rewrite xor_bytes_length by exact Hl. apply xor_bytes_involutive; exact Hl.
Qed.

(* assembling a chunk from the answers to the plan's steps (each the file's bytes for its range) *)
Lemma slice_app l a b c : 0 <= a -> a <= b -> b <= c -> slice l a b ++ slice l b c = slice l a c.
Proof.
  intros Ha Hb Hc. unfold slice.
  replace (Z.to_nat (c - a)) with (Z.to_nat (b - a) + Z.to_nat (c - b))%nat by lia.
  replace (Z.to_nat b) with (Z.to_nat a + Z.to_nat (b - a))%nat by lia.
  rewrite <- skipn_skipn'. generalize (skipn (Z.to_nat a) l) as m, (Z.to_nat (b - a)) as x, (Z.to_nat (c - b)) as y.
  intros m x; revert m. induction x as [|x IH]; intros m y; [reflexivity|].
  destruct m; cbn; [rewrite firstn_nil; reflexivity|]. f_equal. apply IH.
Qed.

Lemma plan_assembles file : forall steps cur,
  0 <= cur -> steps_ok cur steps ->
  concat (map (fun s => slice file (fst s) (fst s + snd s)) steps) = slice file cur (cur + steps_total steps).
Proof.
  induction steps as [|[o l] t IH]; intros cur Hc H.
  - cbn. unfold slice. replace (Z.to_nat (cur + 0 - cur)) with 0%nat by lia. reflexivity.
  - cbn in H. destruct H as (-> & (V1 & _) & _ & Hok). unfold c_cdnMinChunk in V1.
    cbn [map concat fst snd steps_total fold_right]. fold (steps_total t).
    rewrite (IH (cur + l)) by (auto; lia).
    assert (0 <= steps_total t).
    { clear -Hok. revert Hok. generalize (cur + l). induction t as [|[o2 l2] t2 IH2]; intros c0 H; [cbn; lia|].
      cbn in H. destruct H as (_ & (W1 & _) & _ & H2). unfold c_cdnMinChunk in W1. specialize (IH2 _ H2).
      cbn [steps_total fold_right snd]. fold (steps_total t2). lia. }
    rewrite slice_app by lia. f_equal. lia.
Qed.

(* ---------- cdn.Chunk: the walk over the request plan ---------- *)

Lemma xor_bytes_length_le : forall a k, (length (xor_bytes a k) <= length a)%nat.
Proof. induction a as [|x a IH]; intros [|y k]; cbn; try lia. specialize (IH k). lia. Qed.

Lemma steps_total_nonneg : forall steps cur, steps_ok cur steps -> 0 <= steps_total steps.
Proof.
  induction steps as [|[o l] t IH]; intros cur H; [cbn; lia|].
  cbn in H. destruct H as (_ & (V1 & _) & _ & H2). unfold c_cdnMinChunk in V1. specialize (IH _ H2).
  cbn [steps_total fold_right snd]. fold (steps_total t). lia.
Qed.

Lemma slice_len_gen l a b : 0 <= a -> zlen (slice l a b) = Z.max 0 (Z.min b (zlen l) - a).
Proof. intros Ha. unfold slice, zlen. rewrite firstn_length, skipn_length. lia. Qed.

Section ChunkProofs.
Variable E : Z -> list Z.
Variable ivz : Z.

(* ANY CDN: the assembled chunk is never longer than the plan (= the requested limit) *)
Lemma assemble_len answers : forall steps cur data d,
  steps_ok cur steps -> assemble E ivz answers steps data = Some d ->
  zlen d <= zlen data + steps_total steps.
Proof.
  induction steps as [|[o l] t IH]; intros cur data d Hok H.
  - cbn in *. inversion H; subst. lia.
  - pose proof (steps_total_nonneg _ _ Hok) as Hnn.
    cbn [assemble] in H. cbn in Hok. destruct Hok as (-> & (V1 & _) & _ & Hok).
    destruct (Z.gtb_spec (Z.of_nat (length (answers cur l))) l); [discriminate|].
    pose proof (xor_bytes_length_le (answers cur l) (keystream E (S (length (answers cur l) / 16)) (iv_with_offset ivz cur) 0)) as Hx.
    fold (decrypt E ivz cur (answers cur l)) in Hx.
    pose proof (steps_total_nonneg _ _ Hok) as Hnt.
    cbn [steps_total fold_right snd]. fold (steps_total t).
    destruct (Z.ltb_spec (Z.of_nat (length (decrypt E ivz cur (answers cur l)))) l).
    + inversion H; subst. unfold zlen. rewrite app_length. lia.
    + specialize (IH _ _ _ Hok H). unfold zlen in *. rewrite app_length in IH. lia.
Qed.

Hypothesis E16 : forall z, length (E z) = 16%nat.
Variable file : list Z.
Notation size := (zlen file).
(* an honest CDN: the file's bytes for the step, cut at the end of the file, CTR-encrypted *)
Definition honest_answers (o l : Z) : list Z := decrypt E ivz o (slice file o (Z.min (o + l) size)).

Lemma assemble_honest : forall steps cur data,
  0 <= cur -> steps_ok cur steps ->
  assemble E ivz honest_answers steps data = Some (data ++ slice file cur (Z.min (cur + steps_total steps) size)).
Proof.
  induction steps as [|[o l] t IH]; intros cur data Hc Hok.
  - cbn. f_equal. unfold slice. replace (Z.to_nat (Z.min (cur + 0) size - cur)) with 0%nat by lia. rewrite app_nil_r. reflexivity.
  - pose proof (steps_total_nonneg _ _ Hok) as Hnn.
    cbn in Hok. destruct Hok as (-> & (V1 & _) & _ & Hok). unfold c_cdnMinChunk in V1.
    pose proof (steps_total_nonneg _ _ Hok) as Hnt.
    cbn [assemble steps_total fold_right snd]. fold (steps_total t).
    set (g := slice file cur (Z.min (cur + l) size)).
    assert (decrypt E ivz cur (honest_answers cur l) = g) as Hd by (apply decrypt_involutive; exact E16).
    assert (length (honest_answers cur l) = length g) as Hal.
    { unfold honest_answers. fold g. unfold decrypt. apply xor_bytes_length.
      rewrite keystream_length by exact E16. pose proof (Nat.div_mod (length g) 16 ltac:(lia)).
      pose proof (Nat.mod_upper_bound (length g) 16 ltac:(lia)). lia. }
    assert (zlen g = Z.max 0 (Z.min (Z.min (cur + l) size) size - cur)) as Hgl by (unfold g; apply slice_len_gen; lia).
    rewrite Hal, Hd. fold (zlen g). rewrite Hgl.
    destruct (Z.gtb_spec (Z.max 0 (Z.min (Z.min (cur + l) size) size - cur)) l); [lia|].
    destruct (Z.ltb_spec (Z.max 0 (Z.min (Z.min (cur + l) size) size - cur)) l) as [Hs|Hs].
    + (* the file ends inside (or before) this step *)
      do 2 f_equal. unfold g. f_equal. lia.
    + rewrite (IH (cur + l) (data ++ g) ltac:(lia) Hok). rewrite <- app_assoc. do 2 f_equal.
      unfold g. rewrite Z.min_l by lia. rewrite slice_app by lia. f_equal. lia.
Qed.

Variable sha : list Z -> list Z.
Variable hash_for : Z -> option hwin.
Variable fetch : hwin -> list Z.

(* honest CDN, honest hash list covering the file: cdn.Chunk returns exactly the file's bytes for the
   requested range, cut at the end of the file *)
Theorem cdn_chunk_honest offset limit :
  (forall o, 0 <= o < size ->
     exists w, hash_for o = Some w /\ 0 <= w_off w <= o /\ o < w_off w + w_limit w /\ w_hash w = sha (gen file w)) ->
  (forall w, fetch w = gen file w) ->
  0 <= offset < size -> 0 < limit -> offset mod c_cdnMinChunk = 0 -> limit mod c_cdnMinChunk = 0 ->
  cdn_chunk E ivz honest_answers sha hash_for fetch offset limit = Some (slice file offset (Z.min (offset + limit) size)).
Proof.
  intros Hcov Hf Ho Hl Hom Hlm. unfold cdn_chunk.
  destruct (build_plan_spec offset limit ltac:(lia) Hl Hom Hlm) as (steps & Hp & Hok & Htot).
  rewrite Hp, (assemble_honest steps offset [] ltac:(lia) Hok), Htot. cbn [app].
  apply (verify_chunk_honest sha hash_for fetch file Hcov Hf offset limit Ho Hl).
Qed.

(* ANY CDN: what cdn.Chunk returns is at most [limit] bytes long and every byte of it lies in a
   hash-verified window *)
Theorem cdn_chunk_sound answers offset limit d :
  (forall o w, hash_for o = Some w -> w_off w <= o) ->
  cdn_chunk E ivz answers sha hash_for fetch offset limit = Some d ->
  zlen d <= limit /\ forall x, offset <= x < offset + zlen d -> cov sha hash_for d offset x.
Proof.
  intros Hcont H. unfold cdn_chunk in H.
  destruct (build_plan offset limit) as [|  |steps] eqn:Hp; try discriminate.
  destruct (assemble E ivz answers steps []) as [data|] eqn:Ha; [|discriminate].
  destruct (verify_chunk_sound sha hash_for fetch Hcont _ _ _ _ H) as [Hl Hc]. rewrite <- Hl in Hc.
  split; [|exact Hc].
  (* the plan of an accepted range sums to the limit *)
  assert (steps_ok offset steps /\ steps_total steps = limit) as [Hok Htot].
  { unfold build_plan in Hp.
    destruct (plan_bad_limit limit) eqn:B1; [discriminate|]. destruct (plan_bad_offset offset) eqn:B2; [discriminate|].
    destruct (plan_unaligned_offset offset) eqn:B3; [discriminate|]. destruct (plan_unaligned_limit limit) eqn:B4; [discriminate|].
    unfold plan_bad_limit, plan_bad_offset, plan_unaligned_offset, plan_unaligned_limit, c_cdnMinChunk in *.
    apply Z.leb_gt in B1. apply Z.ltb_ge in B2. apply negb_false_iff, Z.eqb_eq in B3. apply negb_false_iff, Z.eqb_eq in B4.
    rewrite Z.rem_mod_nonneg in B3, B4 by lia.
    destruct (build_plan_spec offset limit B2 B1 B3 B4) as (s' & Hp' & Hok & Htot).
    unfold build_plan, plan_bad_limit, plan_bad_offset, plan_unaligned_offset, plan_unaligned_limit, c_cdnMinChunk in Hp'.
    destruct (Z.leb_spec limit 0); [lia|]. destruct (Z.ltb_spec offset 0); [lia|].
    rewrite !Z.rem_mod_nonneg in Hp' by lia. rewrite B3, B4 in Hp'. cbn [Z.eqb negb] in Hp'.
    unfold c_cdnMinChunk in Hp. rewrite Hp in Hp'. inversion Hp'; subst. auto. }
  pose proof (assemble_len answers steps offset [] data Hok Ha) as Hlen. unfold zlen in *. cbn [length] in Hlen. lia.
Qed.
End ChunkProofs.
