(* Proofs for C29 (Model/ClientRetry.v). *)
From Coq Require Import List ZArith Bool Arith Lia.
From TD Require Import Model.ClientRetry.
From TD Require Model.Rpc.
Import ListNotations.

Definition ackphase (p : phase) : Prop :=
  match p with
  | OnConn _ Acked | Returned (RRes _) | Returned RErrAcked | Returned RCtx => True
  | _ => False
  end.
Definition gen_of (p : phase) : option nat :=
  match p with OnConn g _ | Waiting g => Some g | _ => None end.
Definition is_acked_phase (p : phase) : bool :=
  match p with OnConn _ Acked => true | _ => false end.

Definition sends_bound (st : state) : nat :=
  match ph st with
  | Idle => cur_gen st
  | OnConn g Unsent | OnConn g SentLost => g
  | OnConn g _ | Waiting g => S g
  | Returned _ => S (cur_gen st)
  end.

Record Inv (st : state) : Prop := {
  inv_dead_le : forall g, is_dead st g = true -> g <= cur_gen st;
  inv_old_dead : forall g, g < cur_gen st -> is_dead st g = true;
  inv_closed_cur : closed st = true -> paused st = false -> is_dead st (cur_gen st) = true;
  inv_paused_alive : paused st = true -> is_dead st (cur_gen st) = false;
  inv_gen : forall g, gen_of (ph st) = Some g -> g <= cur_gen st;
  inv_acked : acked st = true -> nsends st = sends_at_ack st /\ ackphase (ph st);
  inv_ackedphase : is_acked_phase (ph st) = true -> acked st = true;
  inv_erracked : ph st = Returned RErrAcked -> acked st = true;
  inv_rclosed : ph st = Returned RClosed -> closed st = true;
  inv_rctx : ph st = Returned RCtx -> cancelled st = true;
  inv_wait_dead : forall g, ph st = Waiting g -> is_dead st g = true;
  inv_sends : nsends st <= sends_bound st
}.

Lemma existsb_cons_true g g' d :
  existsb (Nat.eqb g) (g' :: d) = true <-> g = g' \/ existsb (Nat.eqb g) d = true.
Proof. cbn. rewrite orb_true_iff, Nat.eqb_eq. tauto. Qed.
Lemma existsb_app_seq g n d :
  existsb (Nat.eqb g) (seq 0 n ++ d) = true <-> g < n \/ existsb (Nat.eqb g) d = true.
Proof.
  rewrite existsb_app, orb_true_iff. split; intros [H|H]; auto; left.
  - apply existsb_exists in H. destruct H as [x [Hx He]]. apply Nat.eqb_eq in He; subst. apply in_seq in Hx; lia.
  - apply existsb_exists. exists g. split; [apply in_seq; lia|apply Nat.eqb_refl].
Qed.

Lemma inv_init : Inv init.
Proof. constructor; cbn; intros; try discriminate; try lia; auto. Qed.

(* the invocation's own events: only the phase and the counters change *)
Lemma own_step_inv st st' p' ns' ak' sa' :
  Inv st ->
  st' = mkSt p' (cur_gen st) (dead st) (closed st) (cancelled st) ns' ak' sa' (paused st) ->
  (forall g, gen_of p' = Some g -> g <= cur_gen st) ->
  (ak' = true -> ns' = sa' /\ ackphase p') ->
  (is_acked_phase p' = true -> ak' = true) ->
  (p' = Returned RErrAcked -> ak' = true) ->
  (p' = Returned RClosed -> closed st = true) ->
  (p' = Returned RCtx -> cancelled st = true) ->
  (forall g, p' = Waiting g -> is_dead st g = true) ->
  ns' <= sends_bound (mkSt p' (cur_gen st) (dead st) (closed st) (cancelled st) ns' ak' sa' (paused st)) ->
  Inv st'.
Proof.
  intros I -> H1 H2 H3 H4 H5 H6 H7 H8. destruct I.
  constructor; cbn; unfold is_dead in *; cbn; auto.
Qed.

Lemma step_inv st e st' : Inv st -> step st e = Some st' -> Inv st'.
Proof.
  intros I H. pose proof I as [I1 I1b I2 I2b I3 I4 I4b I5 I6 I7 I8 I9].
  destruct e; cbn -[Nat.ltb Nat.leb] in H.
  - (* ESnapshot *)
    destruct (ph st) eqn:P; try discriminate. inversion H; subst; clear H.
    eapply (own_step_inv st _ _ _ _ _ I); [reflexivity|..]; cbn; intros; try discriminate; try congruence.
    + inversion H; subst; lia.
    + destruct (I4 H) as [_ F]; try rewrite P in F; cbn in F; contradiction.
    + unfold sends_bound in I9; try rewrite P in I9; cbn in I9. exact I9.
  - (* ESend *)
    destruct (ph st) as [|g s| |] eqn:P; try discriminate. destruct s; try discriminate.
    destruct (unusable st g) eqn:D; try discriminate. inversion H; subst; clear H.
    eapply (own_step_inv st _ _ _ _ _ I); [reflexivity|..]; cbn; intros; try discriminate; try congruence.
    + inversion H; subst. apply I3; try rewrite P; reflexivity.
    + destruct (I4 H) as [_ F]; try rewrite P in F; cbn in F; contradiction.
    + unfold sends_bound in I9; try rewrite P in I9; cbn in I9. lia.
  - (* ESendLost *)
    destruct (ph st) as [|g s| |] eqn:P; try discriminate. destruct s; try discriminate.
    destruct (unusable st g) eqn:D; try discriminate. inversion H; subst; clear H.
    eapply (own_step_inv st _ _ _ _ _ I); [reflexivity|..]; cbn; intros; try discriminate; try congruence.
    + inversion H; subst. apply I3; try rewrite P; reflexivity.
    + destruct (I4 H) as [_ F]; try rewrite P in F; cbn in F; contradiction.
    + unfold sends_bound in I9; try rewrite P in I9; cbn in I9. exact I9.
  - (* EAck *)
    destruct (ph st) as [|g s| |] eqn:P; try discriminate. destruct s; try discriminate.
    destruct (unusable st g) eqn:D; try discriminate. inversion H; subst; clear H.
    eapply (own_step_inv st _ _ _ _ _ I); [reflexivity|..]; cbn; intros; try discriminate; try congruence; auto.
    unfold sends_bound in I9; try rewrite P in I9; cbn in I9. exact I9.
  - (* EResult *)
    destruct (ph st) as [|g s| |] eqn:P; try discriminate.
    assert (G : g <= cur_gen st) by (apply I3; try rewrite P; reflexivity).
    destruct s; try discriminate; destruct (unusable st g) eqn:D; try discriminate; inversion H; subst; clear H;
      (eapply (own_step_inv st _ _ _ _ _ I); [reflexivity|..]; cbn; intros; try discriminate; try congruence;
       [ destruct (I4 H) as [E _]; auto | unfold sends_bound in I9; try rewrite P in I9; cbn in I9; lia ]).
  - (* EObserveDead *)
    destruct (ph st) as [|g s| |] eqn:P; try discriminate.
    assert (G : g <= cur_gen st) by (apply I3; try rewrite P; reflexivity).
    destruct (is_dead st g) eqn:D; try discriminate.
    destruct s; inversion H; subst; clear H;
      (eapply (own_step_inv st _ _ _ _ _ I); [reflexivity|..]; cbn; intros; try discriminate; try congruence;
       try (match goal with Hg : Some _ = Some _ |- _ => inversion Hg; subst; assumption end);
       try (match goal with Hw : Waiting _ = Waiting _ |- _ => inversion Hw; subst; assumption end);
       try (match goal with Ha : acked st = true |- _ => destruct (I4 Ha) as [E F]; try rewrite P in F; cbn in F; try contradiction; auto end);
       try (apply I4b; try rewrite P; reflexivity);
       try (unfold sends_bound in I9; try rewrite P in I9; cbn in I9; lia)).
  - (* EWake *)
    destruct (ph st) as [|g s|g|] eqn:P; try discriminate.
    destruct (Nat.ltb g (cur_gen st)) eqn:W; try discriminate. inversion H; subst; clear H.
    apply Nat.ltb_lt in W.
    eapply (own_step_inv st _ _ _ _ _ I); [reflexivity|..]; cbn; intros; try discriminate; try congruence.
    + destruct (I4 H) as [_ F]; try rewrite P in F; cbn in F; contradiction.
    + unfold sends_bound in I9; try rewrite P in I9; cbn in I9. lia.
  - (* EWakeClosed *)
    destruct (ph st) as [|g s|g|] eqn:P; try discriminate.
    assert (G : g <= cur_gen st) by (apply I3; try rewrite P; reflexivity).
    destruct (closed st) eqn:C; try discriminate. inversion H; subst; clear H.
    eapply (own_step_inv st _ _ _ _ _ I); [reflexivity|..]; cbn; intros; try discriminate; try congruence.
    + destruct (I4 H) as [_ F]; try rewrite P in F; cbn in F; contradiction.
    + unfold sends_bound in I9; try rewrite P in I9; cbn in I9. lia.
  - (* EWakeCtx *)
    destruct (ph st) as [|g s|g|] eqn:P; try discriminate;
      assert (G : g <= cur_gen st) by (apply I3; try rewrite P; reflexivity);
      destruct (cancelled st) eqn:C; try discriminate; inversion H; subst; clear H;
      (eapply (own_step_inv st _ _ _ _ _ I); [reflexivity|..]; cbn; intros; try discriminate; try congruence;
       try (match goal with Ha : acked st = true |- _ => destruct (I4 Ha) as [E F]; try rewrite P in F; cbn in F; split; auto; destruct s; cbn in F; try contradiction; auto end);
       try (match goal with Ha : acked st = true |- _ => destruct (I4 Ha) as [E F]; try rewrite P in F; cbn in F; contradiction end);
       try (unfold sends_bound in I9; try rewrite P in I9; cbn in I9; destruct s; lia);
       try (unfold sends_bound in I9; try rewrite P in I9; cbn in I9; lia)).
  - (* EKill *)
    destruct (unusable st g || negb (Nat.leb g (cur_gen st))) eqn:D; try discriminate.
    apply orb_false_iff in D; destruct D as [D1 D2]. apply negb_false_iff, Nat.leb_le in D2.
    unfold unusable in D1. apply orb_false_iff in D1; destruct D1 as [D1 D1p].
    assert (E : st' = mkSt (ph st) (cur_gen st) (g :: dead st) (closed st) (cancelled st) (nsends st) (acked st) (sends_at_ack st) (paused st))
      by (destruct (ph st); inversion H; reflexivity).
    subst st'. unfold is_dead in *. constructor; cbn; intros; auto.
    + apply existsb_cons_true in H0. destruct H0 as [->|H0]; auto.
    + apply existsb_cons_true. right. auto.
    + apply existsb_cons_true. right. auto.
    + rewrite H0 in D1p. cbn in D1p. apply Nat.eqb_neq in D1p.
      destruct (Nat.eqb_spec (cur_gen st) g); [congruence|]. cbn. apply I2b; exact H0.
    + apply existsb_cons_true. right. auto.
  - (* EReplace *)
    destruct (is_dead st (cur_gen st) && negb (closed st)) eqn:D; try discriminate.
    apply andb_true_iff in D; destruct D as [D1 D2]. apply negb_true_iff in D2.
    assert (E : st' = mkSt (ph st) (S (cur_gen st)) (dead st) (closed st) (cancelled st) (nsends st) (acked st) (sends_at_ack st) true)
      by (destruct (ph st); inversion H; reflexivity).
    subst st'. unfold is_dead in *. constructor; cbn; intros; auto; try congruence.
    all: try (match goal with H0 : ?g < S _ |- _ => assert (g < cur_gen st \/ g = cur_gen st) as [L| ->] by lia; auto end).
    all: try (destruct (existsb (Nat.eqb (S (cur_gen st))) (dead st)) eqn:X; auto; apply I1 in X; lia).
    all: try (match goal with H0 : gen_of _ = Some _ |- _ => apply I3 in H0; lia end).
    all: try (match goal with H0 : existsb _ _ = true |- _ <= S _ => apply I1 in H0; lia end).
    all: try (unfold sends_bound in *; cbn in *; destruct (ph st) as [|? []|?|]; lia).
  - (* EStart *)
    destruct (paused st) eqn:Pa; try discriminate.
    assert (E : st' = mkSt (ph st) (cur_gen st) (if closed st then cur_gen st :: dead st else dead st) (closed st) (cancelled st) (nsends st) (acked st) (sends_at_ack st) false)
      by (destruct (ph st); inversion H; reflexivity).
    subst st'. unfold is_dead in *. constructor; cbn; intros; auto; try discriminate.
    + destruct (closed st); auto. apply existsb_cons_true in H0. destruct H0 as [->|H0]; auto.
    + destruct (closed st); auto. apply existsb_cons_true. right; auto.
    + rewrite H0. apply existsb_cons_true. left; reflexivity.
    + destruct (closed st); auto. apply existsb_cons_true. right; auto.
  - (* EClose *)
    assert (E : st' = mkSt (ph st) (cur_gen st) (seq 0 (if paused st then cur_gen st else S (cur_gen st)) ++ dead st) true (cancelled st) (nsends st) (acked st) (sends_at_ack st) (paused st))
      by (destruct (ph st); inversion H; reflexivity).
    subst st'. unfold is_dead in *. constructor; cbn -[seq]; intros; auto.
    + apply existsb_app_seq in H0. destruct H0 as [H0|H0]; [destruct (paused st); lia|apply I1; exact H0].
    + apply existsb_app_seq. right. auto.
    + rewrite H1. apply existsb_app_seq. left; lia.
    + rewrite H0. destruct (existsb (Nat.eqb (cur_gen st)) (seq 0 (cur_gen st) ++ dead st)) eqn:X; auto.
      apply existsb_app_seq in X. destruct X as [X|X]; [lia|]. rewrite (I2b H0) in X. discriminate.
    + apply existsb_app_seq. right. auto.
  - (* ECancel *)
    assert (E : st' = mkSt (ph st) (cur_gen st) (dead st) (closed st) true (nsends st) (acked st) (sends_at_ack st) (paused st))
      by (destruct (ph st); inversion H; reflexivity).
    subst st'. unfold is_dead in *. constructor; cbn; intros; auto.
Qed.

Lemma run_inv : forall es st st', Inv st -> run st es = Some st' -> Inv st'.
Proof.
  induction es as [|e t IH]; intros st st' I H; cbn in H.
  - inversion H; subst; exact I.
  - destruct (step st e) eqn:E; try discriminate. eapply IH; [eapply step_inv; eauto|exact H].
Qed.
Lemma reachable_inv es st : run init es = Some st -> Inv st.
Proof. apply run_inv, inv_init. Qed.

(* ---- acknowledged at death: never sent again, the caller gets the result or an error ---- *)
Lemma step_acked_stable st e st' :
  Inv st -> acked st = true -> step st e = Some st' ->
  acked st' = true /\ nsends st' = nsends st /\ sends_at_ack st' = sends_at_ack st.
Proof.
  intros I A H. destruct (inv_acked _ I A) as [_ F].
  destruct e; cbn -[Nat.ltb Nat.leb] in H; destruct (ph st) as [|g0 s|g0|r] eqn:P; cbn in F; try destruct F; try discriminate;
    try (destruct s; try destruct F; try discriminate);
    repeat match type of H with
           | (if ?c then _ else _) = _ => destruct c; try discriminate
           end;
    inversion H; subst; cbn; auto.
Qed.
Lemma acked_never_resent : forall es2 es1 s1 s2,
  run init es1 = Some s1 -> acked s1 = true -> run s1 es2 = Some s2 ->
  nsends s2 = nsends s1 /\ acked s2 = true /\ ackphase (ph s2).
Proof.
  intros es2 es1 s1 s2 H1 A H2. pose proof (reachable_inv _ _ H1) as I. clear H1.
  revert s1 s2 A I H2. induction es2 as [|e t IH]; intros s1 s2 A I H2; cbn in H2.
  - inversion H2; subst. split; auto. split; auto. apply (inv_acked _ I A).
  - destruct (step s1 e) as [s|] eqn:E; try discriminate.
    destruct (step_acked_stable _ _ _ I A E) as [A' [N _]].
    destruct (IH s s2 A' (step_inv _ _ _ I E) H2) as [N2 R]. split; [lia|exact R].
Qed.

(* the error class "acknowledged, connection lost" reaches the caller only after an ack; the
   client-closed and cancelled results only when closed / cancelled; a retryable error is
   never a result *)
Lemma results_justified es st r :
  run init es = Some st -> ph st = Returned r ->
  match r with
  | RRes _ => True
  | RErrAcked => acked st = true
  | RCtx => cancelled st = true
  | RClosed => closed st = true
  end.
Proof.
  intros H P. pose proof (reachable_inv _ _ H) as I.
  destruct r; auto; [apply (inv_erracked _ I P)|apply (inv_rctx _ I P)|apply (inv_rclosed _ I P)].
Qed.

(* ---- not acknowledged at death: the request is re-sent on the replacement and its result
   returned.  The path is enabled from every reachable state of that shape. ---- *)
Lemma unacked_retried es st g s v :
  run init es = Some st -> ph st = OnConn g s -> s <> Acked -> g = cur_gen st ->
  is_dead st g = true -> closed st = false ->
  exists st', run st [EObserveDead; EReplace; EStart; EWake; ESnapshot; ESend; EResult v] = Some st' /\
              ph st' = Returned (RRes v) /\ nsends st' = S (nsends st).
Proof.
  intros H P Hs -> D C. pose proof (reachable_inv _ _ H) as I.
  assert (ND : is_dead st (S (cur_gen st)) = false).
  { destruct (is_dead st (S (cur_gen st))) eqn:E; auto. apply (inv_dead_le _ I) in E. lia. }
  unfold is_dead in *.
  destruct st as [p cg dd cl cn ns ak sa pa]; cbn [ph cur_gen dead closed nsends] in *. subst p cl.
  assert (L : Nat.ltb cg (S cg) = true) by (apply Nat.ltb_lt; lia).
  assert (NE : Nat.eqb (S cg) cg = false) by (apply Nat.eqb_neq; lia).
  destruct s; try congruence;
    repeat (progress (cbn -[Nat.ltb Nat.leb Nat.eqb existsb]; unfold is_dead, unusable, set_ph;
                      cbn -[Nat.ltb Nat.leb Nat.eqb existsb]; rewrite ?D, ?L, ?ND, ?Nat.eqb_refl, ?andb_false_l, ?orb_false_l));
    eauto.
Qed.

(* while the client is open and the caller has not cancelled, a waiting invocation can only
   leave the wait through a replaced connection (it is never failed) *)
Lemma waiting_only_wakes st g e st' :
  ph st = Waiting g -> closed st = false -> cancelled st = false -> step st e = Some st' ->
  ph st' = Waiting g \/ (e = EWake /\ ph st' = Idle).
Proof.
  intros P C X H. destruct e; cbn in H; rewrite P in H; try discriminate;
    repeat match type of H with
           | (if ?c then _ else _) = _ => destruct c eqn:?; try discriminate
           end;
    try congruence; inversion H; subst; cbn; auto.
Qed.

(* ---- after client close.
   FULL STATEMENT (the property's clause): from every reachable closed state the invocation's
   own steps alone end in Returned.  It is REFUTED by the faithful model: a replacement
   connection installed by the reconnect loop's notify callback is not running during the
   backoff pause, an invocation woken by connChanged sits in its waitSession, and client close
   does not reach it (invokeConn looks at the client context only after conn.Invoke returns;
   backoff.RetryNotify's pause is not interrupted because tdsync.SyncBackoff hides
   BackOffContext).  What holds: it returns by its own steps once the pause has ended (the
   loop runs the connection with the cancelled context, it dies) -- i.e. within the
   reconnect backoff interval, which is user-configurable. ---- *)
Definition own_event (e : event) : bool :=
  match e with
  | ESnapshot | ESend | ESendLost | EObserveDead | EWake | EWakeClosed | EWakeCtx => true
  | _ => false
  end.
Lemma own_step_frame st e st' :
  own_event e = true -> step st e = Some st' ->
  closed st' = closed st /\ paused st' = paused st /\ cur_gen st' = cur_gen st /\ dead st' = dead st.
Proof.
  intros O H. destruct e; try discriminate; cbn -[Nat.ltb] in H;
    destruct (ph st) as [|g s|g|r]; try discriminate; try (destruct s; try discriminate);
    repeat match type of H with (if ?c then _ else _) = _ => destruct c eqn:?; try discriminate end;
    inversion H; subst; cbn; auto.
Qed.
Lemma own_next_own pw st e : own_next pw st = Some e -> own_event e = true.
Proof.
  unfold own_next. destruct (ph st); try discriminate; try (intros H; inversion H; reflexivity).
  destruct (pw && Nat.ltb g (cur_gen st)); intros H; inversion H; reflexivity.
Qed.
Lemma run_own_frame pw : forall n st, Inv st ->
  Inv (run_own pw n st) /\ closed (run_own pw n st) = closed st /\ paused (run_own pw n st) = paused st.
Proof.
  induction n as [|n IH]; intros st I; cbn; auto.
  destruct (own_next pw st) as [e|] eqn:E; auto.
  destruct (step st e) as [st'|] eqn:S; auto.
  destruct (own_step_frame _ _ _ (own_next_own _ _ _ E) S) as [C [P _]].
  destruct (IH st' (step_inv _ _ _ I S)) as [I' [C' P']]. rewrite C', P', C, P. auto.
Qed.

Ltac simp := repeat (progress (cbn -[Nat.ltb Nat.leb Nat.eqb existsb andb]; unfold own_next, is_dead, set_ph;
                               cbn -[Nat.ltb Nat.leb Nat.eqb existsb andb];
                               repeat match goal with Hb : @eq bool _ _ |- _ => progress rewrite Hb end;
                               rewrite ?Nat.ltb_irrefl, ?andb_false_r, ?andb_true_r, ?andb_false_l, ?andb_true_l)).

Lemma closed_unpaused_returns st pw :
  Inv st -> closed st = true -> paused st = false -> returned (run_own pw 6 st) = true.
Proof.
  intros I C Pa.
  assert (Dall : forall g, g <= cur_gen st -> existsb (Nat.eqb g) (dead st) = true).
  { intros g L. assert (g < cur_gen st \/ g = cur_gen st) as [L'| ->] by lia.
    - apply (inv_old_dead _ I); exact L'.
    - apply (inv_closed_cur _ I C Pa). }
  assert (G : forall g, gen_of (ph st) = Some g -> g <= cur_gen st) by apply (inv_gen _ I).
  clear I. destruct st as [p cg dd cl cn ns ak sa pa]; cbn [ph cur_gen dead closed paused] in *. subst cl pa.
  assert (Dcur := Dall cg (le_n _)).
  destruct p as [|g s|g|r].
  - simp. reflexivity.
  - assert (Dg := Dall g (G g eq_refl)).
    destruct pw, (g <? cg) eqn:W, s; simp; reflexivity.
  - destruct pw, (g <? cg) eqn:W; simp; reflexivity.
  - reflexivity.
Qed.

Lemma closed_returns_partial es st pw :
  run init es = Some st -> closed st = true ->
  returned (run_own pw 6 st) = true \/
  (paused (run_own pw 6 st) = true /\
   exists st2, step (run_own pw 6 st) EStart = Some st2 /\ returned (run_own pw 6 st2) = true).
Proof.
  intros H C. pose proof (reachable_inv _ _ H) as I.
  destruct (run_own_frame pw 6 st I) as [I1 [C1 P1]].
  destruct (returned (run_own pw 6 st)) eqn:R; [left; reflexivity|right].
  destruct (paused st) eqn:Pa.
  - split; [rewrite P1; reflexivity|].
    remember (run_own pw 6 st) as st1 eqn:E1. clear E1.
    destruct st1 as [p cg dd cl cn ns ak sa pa]; cbn [closed paused] in C1, P1. rewrite C in C1. subst cl pa.
    exists (mkSt p cg (cg :: dd) true cn ns ak sa false); split; [destruct p; reflexivity|].
    apply closed_unpaused_returns; [|reflexivity|reflexivity].
    apply (step_inv _ EStart _ I1). destruct p; reflexivity.
  - rewrite (closed_unpaused_returns st pw I C Pa) in R. discriminate.
Qed.

(* the witness of the refutation: request sent, connection dies, replacement installed (pause),
   invocation woken and on the not-yet-running replacement, client closed *)
Definition closed_stuck_trace : list event :=
  [ESnapshot; ESend; EKill 0; EObserveDead; EReplace; EWake; ESnapshot; EClose].
Lemma closed_returns_refuted :
  exists st, run init closed_stuck_trace = Some st /\ closed st = true /\
             returned (run_own true 6 st) = false /\ returned (run_own false 6 st) = false /\
             step st ESnapshot = None /\ step st ESend = None /\ step st ESendLost = None /\
             step st EObserveDead = None /\ step st EWake = None /\ step st EWakeClosed = None /\ step st EWakeCtx = None.
Proof. eexists. vm_compute. repeat split; reflexivity. Qed.

(* ---- the snapshot (connection, its "replaced" channel) is atomic: an invocation only ever
   waits on the channel of a connection that is dead, so the reconnect loop -- which
   replaces the current connection once it is dead -- wakes it ---- *)
Lemma waits_only_on_dead es st g :
  run init es = Some st -> ph st = Waiting g -> is_dead st g = true /\ g <= cur_gen st.
Proof.
  intros H P. pose proof (reachable_inv _ _ H) as I. split.
  - apply (inv_wait_dead _ I); exact P.
  - apply (inv_gen _ I). rewrite P; reflexivity.
Qed.

Lemma waiting_can_be_woken es st g :
  run init es = Some st -> ph st = Waiting g -> closed st = false ->
  exists st', (run st [EWake] = Some st' \/ run st [EReplace; EWake] = Some st') /\ ph st' = Idle.
Proof.
  intros H P C. destruct (waits_only_on_dead _ _ _ H P) as [D L].
  destruct (Nat.ltb g (cur_gen st)) eqn:W.
  - eexists; split; [left; cbn -[Nat.ltb]; rewrite P, W; reflexivity|reflexivity].
  - apply Nat.ltb_ge in W. assert (g = cur_gen st) by lia. subst g.
    eexists; split; [right|].
    + cbn -[Nat.ltb]. rewrite D, C. cbn -[Nat.ltb]. rewrite P.
      replace (cur_gen st <? S (cur_gen st)) with true by (symmetry; apply Nat.ltb_lt; lia). reflexivity.
    + reflexivity.
Qed.

(* what a non-atomic snapshot would produce -- the old dead connection paired with the
   channel of the current, working generation, i.e. Waiting on a live current generation --
   is stuck: neither the invocation nor the reconnect loop has an enabled step (lost wake-up).
   By [waits_only_on_dead] no such state is reachable with the atomic snapshot. *)
Lemma split_snapshot_state_is_stuck st :
  ph st = Waiting (cur_gen st) -> is_dead st (cur_gen st) = false ->
  closed st = false -> cancelled st = false -> paused st = false ->
  step st ESnapshot = None /\ step st ESend = None /\ step st ESendLost = None /\ step st EAck = None /\
  (forall v, step st (EResult v) = None) /\ step st EObserveDead = None /\ step st EWake = None /\
  step st EWakeClosed = None /\ step st EWakeCtx = None /\ step st EReplace = None /\ step st EStart = None.
Proof.
  intros P D C X Pa. cbn -[Nat.ltb]. rewrite P, D, C, X, Pa, Nat.ltb_irrefl. cbn. repeat split; reflexivity.
Qed.

(* ---- universal bounds: for ALL event lists ---- *)
(* at most one execution per connection generation: re-sends only happen on replacements *)
Lemma sends_bounded es st : run init es = Some st -> nsends st <= S (cur_gen st).
Proof.
  intros H. pose proof (reachable_inv _ _ H) as I. pose proof (inv_sends _ I) as B.
  pose proof (inv_gen _ I) as G. unfold sends_bound in B.
  destruct (ph st) as [|g s|g|r] eqn:P; try lia.
  - specialize (G g eq_refl). destruct s; lia.
  - specialize (G g eq_refl). lia.
Qed.
(* with the client open and the caller's context live, whatever the faults and the schedule,
   the only things an invocation can return are the result or -- after an ack -- the
   connection-lost error *)
Lemma open_returns_result_or_acked_error es st r :
  run init es = Some st -> ph st = Returned r -> closed st = false -> cancelled st = false ->
  (exists v, r = RRes v) \/ (r = RErrAcked /\ acked st = true).
Proof.
  intros H P C X. pose proof (results_justified _ _ _ H P) as J.
  destruct r; [left; eauto|right; auto|congruence|congruence].
Qed.

(* ---- the outcome classes are the rpc engine's ----
   Model/Rpc.v (C24-C26) projects what rpc.Engine.Do returns into [Rpc.retv]; the decision
   "retry on a new connection" is telegram/invoke.go errRetryableOnNewConn, regenerated from
   the source into Gen/RpcClass.v ([Rpc.retryable_tg]).  What this model does when the
   connection under an invocation died is exactly that decision applied to the class C26
   proves Do returns: ErrEngineClosed-class (retryable) when the request was not acknowledged,
   the acknowledged-close class (not retryable) otherwise; a delivered result always wins
   (C26 after the fixes df56df347 and 459a12526: Do prefers an answer that was delivered or
   being handled over ErrEngineClosed) -- which is why [EResult] is atomic here. *)
Definition retv_at_death (s : cstate) : TD.Model.Rpc.retv :=
  match s with
  | Acked => TD.Model.Rpc.RClosedAcked
  | _ => TD.Model.Rpc.RClosedRetryable
  end.
Lemma observe_dead_is_rpc_class st g s st' :
  ph st = OnConn g s -> step st EObserveDead = Some st' ->
  (TD.Model.Rpc.retryable_tg (retv_at_death s) = true /\ ph st' = Waiting g) \/
  (TD.Model.Rpc.retryable_tg (retv_at_death s) = false /\ ph st' = Returned RErrAcked).
Proof.
  intros P H. cbn in H. rewrite P in H. destruct (is_dead st g); try discriminate.
  destruct s; inversion H; subst; cbn; [left|left|left|right]; split; reflexivity.
Qed.
Lemma result_class_not_retryable : TD.Model.Rpc.retryable_tg TD.Model.Rpc.RNil = false.
Proof. reflexivity. Qed.
