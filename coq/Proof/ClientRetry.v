(* Proofs for C29 (Model/ClientRetry.v). *)
From Coq Require Import List ZArith Bool Arith Lia.
From TD Require Import Model.ClientRetry.
Import ListNotations.

Definition ackphase (p : phase) : Prop :=
  match p with
  | OnConn _ Acked | Returned (RRes _) | Returned RErrAcked | Returned RCtx => True
  | _ => False
  end.
Definition gen_of (p : phase) : option nat :=
  match p with OnConn g _ | Waiting g => Some g | _ => None end.
Definition is_acked_phase (p : phase) : bool :=
  match p with OnConn _ Acked => true | _ => false end.

Record Inv (st : state) : Prop := {
  inv_dead_le : forall g, is_dead st g = true -> g <= cur_gen st;
  inv_closed_dead : closed st = true -> forall g, g <= cur_gen st -> is_dead st g = true;
  inv_gen : forall g, gen_of (ph st) = Some g -> g <= cur_gen st;
  inv_acked : acked st = true -> nsends st = sends_at_ack st /\ ackphase (ph st);
  inv_ackedphase : is_acked_phase (ph st) = true -> acked st = true;
  inv_erracked : ph st = Returned RErrAcked -> acked st = true;
  inv_rclosed : ph st = Returned RClosed -> closed st = true;
  inv_rctx : ph st = Returned RCtx -> cancelled st = true;
  inv_wait_dead : forall g, ph st = Waiting g -> is_dead st g = true
}.

Lemma existsb_cons_true g g' d :
  existsb (Nat.eqb g) (g' :: d) = true <-> g = g' \/ existsb (Nat.eqb g) d = true.
Proof. cbn. rewrite orb_true_iff, Nat.eqb_eq. tauto. Qed.
Lemma existsb_app_seq g n d :
  existsb (Nat.eqb g) (seq 0 n ++ d) = true <-> g < n \/ existsb (Nat.eqb g) d = true.
Proof.
  rewrite existsb_app, orb_true_iff. split; intros [H|H]; auto; left.
  - apply existsb_exists in H. destruct H as [x [Hx He]]. apply Nat.eqb_eq in He; subst. apply in_seq in Hx; lia.
  - apply existsb_exists. exists g. split; [apply in_seq; lia|apply Nat.eqb_refl].
Qed.

Lemma inv_init : Inv init.
Proof. constructor; cbn; intros; try discriminate; try lia; auto. Qed.

(* finishing tactic for the invocation's own events: only the phase (and ghosts) change *)
Ltac fin I1 I2 I3 I4 I4b I5 I6 I7 I8 P :=
  constructor; cbn; intros;
  repeat match goal with
         | H : Some _ = Some _ |- _ => inversion H; subst; clear H
         end;
  try discriminate; auto;
  try (match goal with H : acked _ = true |- _ => destruct (I4 H) as [? F]; try rewrite P in F; cbn in F; try contradiction; auto end);
  try (apply I3; try rewrite P; reflexivity);
  try (apply I4b; try rewrite P; reflexivity);
  try (apply I1; assumption); try (apply I2; assumption); try lia;
  try (match goal with Hw : Waiting _ = Waiting _ |- _ => inversion Hw; subst; assumption end);
  try (apply I8; try rewrite P; assumption).

Lemma step_inv st e st' : Inv st -> step st e = Some st' -> Inv st'.
Proof.
  intros [I1 I2 I3 I4 I4b I5 I6 I7 I8] H.
  unfold is_dead in *.
  destruct e; cbn -[Nat.ltb Nat.leb] in H; unfold is_dead in H.
  - (* ESnapshot *)
    destruct (ph st) eqn:P; try discriminate. inversion H; subst; clear H.
    fin I1 I2 I3 I4 I4b I5 I6 I7 I8 P.
  - (* ESend *)
    destruct (ph st) as [|g s| |] eqn:P; try discriminate. destruct s; try discriminate.
    destruct (existsb (Nat.eqb g) (dead st)) eqn:D; try discriminate. inversion H; subst; clear H.
    fin I1 I2 I3 I4 I4b I5 I6 I7 I8 P.
  - (* ESendLost *)
    destruct (ph st) as [|g s| |] eqn:P; try discriminate. destruct s; try discriminate.
    destruct (existsb (Nat.eqb g) (dead st)) eqn:D; try discriminate. inversion H; subst; clear H.
    fin I1 I2 I3 I4 I4b I5 I6 I7 I8 P.
  - (* EAck *)
    destruct (ph st) as [|g s| |] eqn:P; try discriminate. destruct s; try discriminate.
    destruct (existsb (Nat.eqb g) (dead st)) eqn:D; try discriminate. inversion H; subst; clear H.
    fin I1 I2 I3 I4 I4b I5 I6 I7 I8 P.
  - (* EResult *)
    destruct (ph st) as [|g s| |] eqn:P; try discriminate.
    destruct s; try discriminate; destruct (existsb (Nat.eqb g) (dead st)) eqn:D; try discriminate; inversion H; subst; clear H;
      fin I1 I2 I3 I4 I4b I5 I6 I7 I8 P.
  - (* EObserveDead *)
    destruct (ph st) as [|g s| |] eqn:P; try discriminate.
    destruct (existsb (Nat.eqb g) (dead st)) eqn:D; try discriminate.
    destruct s; inversion H; subst; clear H; fin I1 I2 I3 I4 I4b I5 I6 I7 I8 P.
  - (* EWake *)
    destruct (ph st) as [|g s|g|] eqn:P; try discriminate.
    destruct (Nat.ltb g (cur_gen st)); try discriminate. inversion H; subst; clear H.
    fin I1 I2 I3 I4 I4b I5 I6 I7 I8 P.
  - (* EWakeClosed *)
    destruct (ph st) as [|g s|g|] eqn:P; try discriminate.
    destruct (closed st) eqn:C; try discriminate. inversion H; subst; clear H.
    fin I1 I2 I3 I4 I4b I5 I6 I7 I8 P.
  - (* EWakeCtx *)
    destruct (ph st) as [|g s|g|] eqn:P; try discriminate;
      destruct (cancelled st) eqn:C; try discriminate; inversion H; subst; clear H;
      fin I1 I2 I3 I4 I4b I5 I6 I7 I8 P.
  - (* EKill *)
    destruct (existsb (Nat.eqb g) (dead st) || negb (Nat.leb g (cur_gen st))) eqn:D; try discriminate.
    apply orb_false_iff in D; destruct D as [D1 D2]. apply negb_false_iff, Nat.leb_le in D2.
    assert (E : st' = mkSt (ph st) (cur_gen st) (g :: dead st) (closed st) (cancelled st) (nsends st) (acked st) (sends_at_ack st))
      by (destruct (ph st); inversion H; reflexivity).
    subst st'. constructor; cbn; intros; auto.
    + apply existsb_cons_true in H0. destruct H0 as [->|H0]; auto.
    + apply existsb_cons_true. right. apply I2; auto.
    + apply existsb_cons_true. right. apply I8; auto.
  - (* EReplace *)
    destruct (existsb (Nat.eqb (cur_gen st)) (dead st) && negb (closed st)) eqn:D; try discriminate.
    apply andb_true_iff in D; destruct D as [D1 D2]. apply negb_true_iff in D2.
    assert (E : st' = mkSt (ph st) (S (cur_gen st)) (dead st) (closed st) (cancelled st) (nsends st) (acked st) (sends_at_ack st))
      by (destruct (ph st); inversion H; reflexivity).
    subst st'. constructor; cbn; intros; auto; try congruence;
      try (match goal with H0 : _ |- _ <= S _ => first [apply I1 in H0|apply I3 in H0]; lia end).
  - (* EClose *)
    assert (E : st' = mkSt (ph st) (cur_gen st) (seq 0 (S (cur_gen st)) ++ dead st) true (cancelled st) (nsends st) (acked st) (sends_at_ack st))
      by (destruct (ph st); inversion H; reflexivity).
    subst st'. constructor; cbn -[seq]; intros; auto.
    + apply existsb_app_seq in H0. destruct H0 as [H0|H0]; [lia|apply I1; exact H0].
    + apply existsb_app_seq. left; lia.
    + apply existsb_app_seq. right. apply I8; auto.
  - (* ECancel *)
    assert (E : st' = mkSt (ph st) (cur_gen st) (dead st) (closed st) true (nsends st) (acked st) (sends_at_ack st))
      by (destruct (ph st); inversion H; reflexivity).
    subst st'. constructor; cbn; intros; auto.
Qed.

Lemma run_inv : forall es st st', Inv st -> run st es = Some st' -> Inv st'.
Proof.
  induction es as [|e t IH]; intros st st' I H; cbn in H.
  - inversion H; subst; exact I.
  - destruct (step st e) eqn:E; try discriminate. eapply IH; [eapply step_inv; eauto|exact H].
Qed.
Lemma reachable_inv es st : run init es = Some st -> Inv st.
Proof. apply run_inv, inv_init. Qed.

(* ---- acknowledged at death: never sent again, the caller gets the result or an error ---- *)
Lemma step_acked_stable st e st' :
  Inv st -> acked st = true -> step st e = Some st' ->
  acked st' = true /\ nsends st' = nsends st /\ sends_at_ack st' = sends_at_ack st.
Proof.
  intros I A H. destruct (inv_acked _ I A) as [_ F].
  destruct e; cbn -[Nat.ltb Nat.leb] in H; destruct (ph st) as [|g0 s|g0|r] eqn:P; cbn in F; try destruct F; try discriminate;
    try (destruct s; try destruct F; try discriminate);
    repeat match type of H with
           | (if ?c then _ else _) = _ => destruct c; try discriminate
           end;
    inversion H; subst; cbn; auto.
Qed.
Lemma acked_never_resent : forall es2 es1 s1 s2,
  run init es1 = Some s1 -> acked s1 = true -> run s1 es2 = Some s2 ->
  nsends s2 = nsends s1 /\ acked s2 = true /\ ackphase (ph s2).
Proof.
  intros es2 es1 s1 s2 H1 A H2. pose proof (reachable_inv _ _ H1) as I. clear H1.
  revert s1 s2 A I H2. induction es2 as [|e t IH]; intros s1 s2 A I H2; cbn in H2.
  - inversion H2; subst. split; auto. split; auto. apply (inv_acked _ I A).
  - destruct (step s1 e) as [s|] eqn:E; try discriminate.
    destruct (step_acked_stable _ _ _ I A E) as [A' [N _]].
    destruct (IH s s2 A' (step_inv _ _ _ I E) H2) as [N2 R]. split; [lia|exact R].
Qed.

(* the error class "acknowledged, connection lost" reaches the caller only after an ack; the
   client-closed and cancelled results only when closed / cancelled; a retryable error is
   never a result *)
Lemma results_justified es st r :
  run init es = Some st -> ph st = Returned r ->
  match r with
  | RRes _ => True
  | RErrAcked => acked st = true
  | RCtx => cancelled st = true
  | RClosed => closed st = true
  end.
Proof.
  intros H P. pose proof (reachable_inv _ _ H) as I.
  destruct r; auto; [apply (inv_erracked _ I P)|apply (inv_rctx _ I P)|apply (inv_rclosed _ I P)].
Qed.

(* ---- not acknowledged at death: the request is re-sent on the replacement and its result
   returned.  The path is enabled from every reachable state of that shape. ---- *)
Lemma unacked_retried es st g s v :
  run init es = Some st -> ph st = OnConn g s -> s <> Acked -> g = cur_gen st ->
  is_dead st g = true -> closed st = false ->
  exists st', run st [EObserveDead; EReplace; EWake; ESnapshot; ESend; EResult v] = Some st' /\
              ph st' = Returned (RRes v) /\ nsends st' = S (nsends st).
Proof.
  intros H P Hs -> D C. pose proof (reachable_inv _ _ H) as I.
  assert (ND : is_dead st (S (cur_gen st)) = false).
  { destruct (is_dead st (S (cur_gen st))) eqn:E; auto. apply (inv_dead_le _ I) in E. lia. }
  unfold is_dead in *.
  destruct st as [p cg dd cl cn ns ak sa]; cbn [ph cur_gen dead closed nsends] in *. subst p cl.
  assert (L : Nat.ltb cg (S cg) = true) by (apply Nat.ltb_lt; lia).
  destruct s; try congruence;
    repeat (progress (cbn -[Nat.ltb Nat.leb Nat.eqb existsb]; unfold is_dead, set_ph; rewrite ?D, ?L, ?ND));
    eauto.
Qed.

(* while the client is open and the caller has not cancelled, a waiting invocation can only
   leave the wait through a replaced connection (it is never failed) *)
Lemma waiting_only_wakes st g e st' :
  ph st = Waiting g -> closed st = false -> cancelled st = false -> step st e = Some st' ->
  ph st' = Waiting g \/ (e = EWake /\ ph st' = Idle).
Proof.
  intros P C X H. destruct e; cbn in H; rewrite P in H; try discriminate;
    repeat match type of H with
           | (if ?c then _ else _) = _ => destruct c eqn:?; try discriminate
           end;
    try congruence; inversion H; subst; cbn; auto.
Qed.

(* ---- after client close every pending and new invocation returns: from every reachable
   closed state the invocation's own steps alone (at most 6, whichever ready case the select
   picks) end in Returned ---- *)
Lemma closed_returns es st pw :
  run init es = Some st -> closed st = true -> returned (run_own pw 6 st) = true.
Proof.
  intros H C. pose proof (reachable_inv _ _ H) as I.
  assert (Dall : forall g, g <= cur_gen st -> existsb (Nat.eqb g) (dead st) = true) by (apply (inv_closed_dead _ I C)).
  assert (G : forall g, gen_of (ph st) = Some g -> g <= cur_gen st) by apply (inv_gen _ I).
  clear H I. destruct st as [p cg dd cl cn ns ak sa]; cbn [ph cur_gen dead closed] in *. subst cl.
  assert (Dcur := Dall cg (le_n _)).
  Ltac simp := repeat (progress (cbn -[Nat.ltb Nat.leb Nat.eqb existsb andb]; unfold own_next, is_dead, set_ph;
                                 cbn -[Nat.ltb Nat.leb Nat.eqb existsb andb];
                                 repeat match goal with Hb : @eq bool _ _ |- _ => progress rewrite Hb end;
                                 rewrite ?Nat.ltb_irrefl, ?andb_false_r, ?andb_true_r, ?andb_false_l, ?andb_true_l)).
  destruct p as [|g s|g|r].
  - simp. reflexivity.
  - assert (Dg := Dall g (G g eq_refl)).
    destruct pw, (g <? cg) eqn:W, s; simp; reflexivity.
  - destruct pw, (g <? cg) eqn:W; simp; reflexivity.
  - reflexivity.
Qed.

(* ---- the snapshot (connection, its "replaced" channel) is atomic: an invocation only ever
   waits on the channel of a connection that is dead, so the reconnect loop -- which
   replaces the current connection once it is dead -- wakes it ---- *)
Lemma waits_only_on_dead es st g :
  run init es = Some st -> ph st = Waiting g -> is_dead st g = true /\ g <= cur_gen st.
Proof.
  intros H P. pose proof (reachable_inv _ _ H) as I. split.
  - apply (inv_wait_dead _ I); exact P.
  - apply (inv_gen _ I). rewrite P; reflexivity.
Qed.

Lemma waiting_can_be_woken es st g :
  run init es = Some st -> ph st = Waiting g -> closed st = false ->
  exists st', (run st [EWake] = Some st' \/ run st [EReplace; EWake] = Some st') /\ ph st' = Idle.
Proof.
  intros H P C. destruct (waits_only_on_dead _ _ _ H P) as [D L].
  destruct (Nat.ltb g (cur_gen st)) eqn:W.
  - eexists; split; [left; cbn -[Nat.ltb]; rewrite P, W; reflexivity|reflexivity].
  - apply Nat.ltb_ge in W. assert (g = cur_gen st) by lia. subst g.
    eexists; split; [right|].
    + cbn -[Nat.ltb]. rewrite D, C. cbn -[Nat.ltb]. rewrite P.
      replace (cur_gen st <? S (cur_gen st)) with true by (symmetry; apply Nat.ltb_lt; lia). reflexivity.
    + reflexivity.
Qed.

(* what a non-atomic snapshot would produce -- the old dead connection paired with the
   channel of the current, working generation, i.e. Waiting on a live current generation --
   is stuck: neither the invocation nor the reconnect loop has an enabled step (lost wake-up).
   By [waits_only_on_dead] no such state is reachable with the atomic snapshot. *)
Lemma split_snapshot_state_is_stuck st :
  ph st = Waiting (cur_gen st) -> is_dead st (cur_gen st) = false ->
  closed st = false -> cancelled st = false ->
  step st ESnapshot = None /\ step st ESend = None /\ step st ESendLost = None /\ step st EAck = None /\
  (forall v, step st (EResult v) = None) /\ step st EObserveDead = None /\ step st EWake = None /\
  step st EWakeClosed = None /\ step st EWakeCtx = None /\ step st EReplace = None.
Proof.
  intros P D C X. cbn -[Nat.ltb]. rewrite P, D, C, X, Nat.ltb_irrefl. cbn. repeat split; reflexivity.
Qed.
