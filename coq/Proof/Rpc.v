(* Invariants of the rpc.Engine transition system (Model/Rpc.v), proved by induction over
   arbitrary event lists, and the lemmas behind Prop/C24.v, Prop/C25.v, Prop/C26.v. *)
From Coq Require Import ZArith List Bool Lia.
From TD Require Import Gen.RpcClass Model.Rpc.
Import ListNotations.
Open Scope Z_scope.

(* ---------- classification of program counters ---------- *)
Definition pre_send (p : cpc) : bool :=
  match p with PIdle | PEntered | PRegistered | PAckWait => true | _ => false end.
Definition in_loop (p : cpc) : bool :=
  match p with PSentGo | PSelect | PSelClosed | PSelTimer | PTimerGo => true | _ => false end.
Definition after_loop (p : cpc) : bool := negb (pre_send p || in_loop p).
Definition pc_ret (p : cpc) : option retv :=
  match p with PFinal r | PUnreg r | PAwait r | PSettled r | PReturned r => Some r | _ => None end.
Definition pc_lres (p : cpc) : option lres :=
  match p with PExit l | PRetried l => Some l | _ => None end.
Definition limit_pc (p : cpc) : bool :=
  match pc_ret p, pc_lres p with Some RLimit, _ => true | _, Some LLimit => true | _, _ => false end.
Definition unacked_pc (p : cpc) : bool :=
  match pc_ret p, pc_lres p with Some RClosedRetryable, _ => true | _, Some LClosedUnacked => true | _, _ => false end.
Definition settled_pc (p : cpc) : bool := match p with PSettled _ | PReturned _ => true | _ => false end.
Definition is_result (r : retv) : bool := match r with RNil | RDecodeErr | RRpc _ => true | _ => false end.
Definition acked_class (p : cpc) : bool :=
  match p with
  | PWait | PWaitCtx | PNop | PDropped | PWaitClosed => true
  | _ => match pc_ret p, pc_lres p with
         | Some RClosedAcked, _ | Some RCtx, _ => true
         | _, Some LNil | _, Some LCtx | _, Some LSendCanc1 => true
         | _, _ => false
         end
  end.
Definition ctx_phase (p : cpc) : bool :=
  match p with
  | PWaitCtx | PNop | PDropped => true
  | _ => match pc_ret p with Some RCtx => true | _ => false end
  end.
Definition pre_entered (p : cpc) : bool :=
  match p with PIdle | PReturned RRejected => true | _ => false end.
Definition drops_of (k : call) : Z :=
  match pc k with
  | PDropped => 1
  | p => match pc_ret p with Some RCtx => if sent k then 1 else 0 | _ => 0 end
  end.

(* ---------- invariant of one call record ---------- *)
Record LI (mx : Z) (k : call) : Prop := mkLI {
  li_nret : nret k = if is_returned (pc k) then 1 else 0;
  li_pre : pre_send (pc k) = true -> nsends k = 0 /\ retries k = 0;
  li_loop : in_loop (pc k) = true -> nsends k = 1 + retries k /\ 0 <= retries k < mx;
  li_after : after_loop (pc k) = true ->
             nsends k <= 1 + mx /\ 0 <= retries k <= mx /\
             (limit_pc (pc k) = true -> retries k = mx) /\ (limit_pc (pc k) = false -> retries k < mx);
  li_v25 : viol25 k = false;
  li_vleft : violleft k = false;
  li_snapgo : pc k = PTimerGo -> snap25 k = false;
  li_snapsel : pc k = PSelTimer -> deliv k = false -> snap25 k = false;
  li_deliv : deliv k = ackclosed k || rcancel k;
  li_left : after_loop (pc k) = false -> leftloop k = false;
  li_v26 : viol26 k = false;
  li_unacked : unacked_pc (pc k) = true -> snap26 k = false;
  li_acked : acked_class (pc k) = true -> deliv k = true;
  li_sendcanc : sendcanc k = true -> deliv k = true;
  li_drops : ndrops k = drops_of k;
  li_finalctx : pc k <> PFinal RCtx;
  li_resok : is_result (res k) = true;
  li_hc0 : hc k = false -> writer k = None /\ selfclaim k = false /\ done k = false /\ nwrites k = 0;
  li_self : selfclaim k = true -> writer k = None /\ nwrites k = 0 /\ done k = false;
  li_settled : settled_pc (pc k) = true -> everreg k = true -> hc k = true /\ (writer k = None \/ done k = true);
  li_idle : everreg k = true -> pc k <> PIdle;
  li_reg : everreg k = false -> hc k = false /\ match pc k with PIdle | PEntered | PReturned RRejected => True | _ => False end;
  li_late : late k = false;
  li_iso : isobad k = false;
  li_result : match pc_ret (pc k) with Some r => is_result r = true -> done k = true /\ res k = r | None => True end;
  li_await : match pc k with PAwait _ => hc k = true | _ => True end;
  li_sent : match pc k with PNop | PDropped => sent k = true | _ => True end;
  li_selfpc : settled_pc (pc k) = false -> selfclaim k = false;
  li_timer : match pc k with
             | PSelect => armed k || tval k = true
             | PSentGo => tmade k = true -> armed k || tval k = true
             | _ => True
             end;
  li_tmade : pre_send (pc k) = true -> tmade k = false;
  li_ctx : ctx_phase (pc k) = true -> ucancel k = true;
  li_entered : entered k = false -> pre_entered (pc k) = true;
  li_entered1 : pc k = PIdle -> entered k = false;
  li_nosend : entered k = false -> nsends k = 0;
  li_rejected : pc_ret (pc k) = Some RRejected -> entered k = false /\ is_returned (pc k) = true;
  li_retryable : match pc k with
                 | PSettled RClosedRetryable | PReturned RClosedRetryable => selfclaim k = true
                 | _ => True
                 end
}.

Lemma LI_call0 : forall mx, 1 <= mx -> LI mx call0.
Proof. intros; constructor; cbn; intros; try discriminate; try tauto; try lia; auto. Qed.

#[local] Arguments Z.add : simpl never.
#[local] Arguments Z.sub : simpl never.
#[local] Arguments Z.leb : simpl never.
#[local] Arguments Z.ltb : simpl never.
#[local] Arguments Z.geb : simpl never.
#[local] Arguments Z.eqb : simpl never.

Ltac brk H :=
  repeat (match type of H with
          | context[match ?x with _ => _ end] => destruct x eqn:?; try discriminate H
          | context[if ?x then _ else _] => destruct x eqn:?; try discriminate H
          end).

Ltac rwb :=
  repeat match goal with
         | H : ?x = true |- _ => lazymatch x with true => fail | false => fail | _ => rewrite H in * end
         | H : ?x = false |- _ => lazymatch x with true => fail | false => fail | _ => rewrite H in * end
         end.

Ltac spec :=
  repeat match goal with
         | H : ?a = ?a -> _ |- _ => specialize (H eq_refl)
         | H : true = false -> _ |- _ => clear H
         | H : false = true -> _ |- _ => clear H
         | H : true = false |- _ => discriminate H
         | H : false = true |- _ => discriminate H
         | H : _ /\ _ |- _ => destruct H
         | H : Some _ = Some _ |- _ => inversion H; subst; clear H
         | H : Some _ = None |- _ => discriminate H
         | H : None = Some _ |- _ => discriminate H
         end.

Ltac simp :=
  rewrite ?Z.geb_leb, ?Z.leb_le, ?Z.leb_gt, ?Z.eqb_eq, ?orb_true_iff, ?orb_false_iff, ?andb_true_iff in *;
  repeat (progress (spec; rwb; rewrite ?orb_true_r, ?orb_false_r in *; cbn in *)).

Ltac close := solve [ assumption | reflexivity | discriminate | congruence | lia | tauto | intuition (try congruence; try lia) ].

Ltac fin :=
  try close; simp;
  first [ close
        | match goal with k : call |- _ => destruct (res k) eqn:?; simp; close end
        | match goal with r : retv |- _ => destruct r; simp; close end
        | match goal with k : call |- _ => destruct (pc k) eqn:?; simp; close end
        | match goal with r : retv, k : call |- _ => destruct r; simp; try close; destruct (res k) eqn:?; simp; close end
        | idtac ].

Lemma caller_LI : forall mx fc ec af c k e k' g,
  1 <= mx -> caller mx fc ec af c k e = Some (k', g) -> LI mx k -> LI mx k'.
Proof.
  intros mx fc ec af c k e k' g Hmx H HL.
  destruct e; cbn [caller] in H; try discriminate H; brk H;
  inversion H; subst; clear H; destruct HL; unfold drops_of in *;
  repeat match goal with E : pc k = _ |- _ => rewrite E in *; clear E end;
  cbn in *; constructor; cbn; intros; fin.
Qed.

(* ---------- steps of other actors on a call record ---------- *)
Lemma LI_claim : forall mx k d, LI mx k -> hc k = false -> everreg k = true ->
  LI mx (set_writer (set_hc k true) (Some d)).
Proof. intros mx k d HL Hh He; destruct HL; unfold drops_of in *; constructor; cbn; intros; fin. Qed.

Lemma LI_write : forall mx k v m, LI mx k -> hc k = true -> selfclaim k = false -> everreg k = true ->
  writer k <> None -> done k = false -> m = mid k ->
  LI mx (set_isobad (set_late (set_nwrites (set_out k v) (nwrites k + 1)) (late k || is_returned (pc k)))
                    (isobad k || negb (Z.eqb m (mid k)))).
Proof.
  intros mx k v m HL Hh Hs He Hw Hd Hm; subst m; rewrite Z.eqb_refl.
  assert (is_returned (pc k) = false).
  { destruct (pc k) eqn:E; try reflexivity. destruct HL. rewrite E in *. cbn in *. intuition congruence. }
  destruct HL; unfold drops_of in *; constructor; cbn; intros; fin.
Qed.

Lemma LI_touch : forall mx k m, LI mx k -> hc k = true -> selfclaim k = false -> everreg k = true ->
  writer k <> None -> done k = false -> m = mid k ->
  LI mx (set_isobad (set_late k (late k || is_returned (pc k))) (isobad k || negb (Z.eqb m (mid k)))).
Proof.
  intros mx k m HL Hh Hs He Hw Hd Hm; subst m; rewrite Z.eqb_refl.
  assert (is_returned (pc k) = false).
  { destruct (pc k) eqn:E; try reflexivity. destruct HL. rewrite E in *. cbn in *. intuition congruence. }
  destruct HL; unfold drops_of in *; constructor; cbn; intros; fin.
Qed.

Lemma LI_done : forall mx k r, LI mx k -> hc k = true -> selfclaim k = false -> done k = false -> is_result r = true ->
  LI mx (set_done (set_res k r) true).
Proof.
  intros mx k r HL Hh Hs Hd Hr; destruct HL; unfold drops_of in *; constructor; cbn; intros; fin.
Qed.

Lemma LI_rclose : forall mx k, LI mx k -> LI mx (set_deliv (set_rcancel k true) true).
Proof. intros mx k HL; destruct HL; unfold drops_of in *; constructor; cbn; intros; fin. Qed.

Lemma LI_ack : forall mx k, LI mx k -> LI mx (set_deliv (set_ackclosed k true) true).
Proof. intros mx k HL; destruct HL; unfold drops_of in *; constructor; cbn; intros; fin. Qed.

Lemma LI_cancel : forall mx k, LI mx k -> LI mx (set_deliv (set_rcancel (set_ucancel k true) true) true).
Proof. intros mx k HL; destruct HL; unfold drops_of in *; constructor; cbn; intros; fin. Qed.

Lemma LI_fire : forall mx k, LI mx k -> LI mx (set_tval (set_armed k false) true).
Proof. intros mx k HL; destruct HL; unfold drops_of in *; constructor; cbn; intros; fin. Qed.

(* ---------- global invariant ---------- *)
Definition payload_result (p : payload) : retv :=
  match p with PRes _ => RNil | PBad => RDecodeErr | PErr c => RRpc c end.

Definition DI (s : state) (d : Z) : Prop :=
  let x := dels s d in
  match dpcv x with
  | DLooked (Some (HReal c)) | DEntered c | DDup c =>
      dmid x = mid (calls s c) /\ everreg (calls s c) = true
  | DClaimed c =>
      let k := calls s c in
      dmid x = mid k /\ everreg k = true /\ writer k = Some d /\ hc k = true /\ done k = false /\
      selfclaim k = false /\ nwrites k = 0
  | DDecoded c ok =>
      let k := calls s c in
      dmid x = mid k /\ everreg k = true /\ writer k = Some d /\ hc k = true /\ done k = false /\
      selfclaim k = false /\
      (if ok then exists v, dpay x = PRes v /\ out k = v /\ nwrites k = 1 else dpay x = PBad /\ nwrites k = 0)
  | _ => True
  end.

Definition RI (s : state) : Prop :=
  forall m c, rpcm s m = Some (HReal c) -> mid (calls s c) = m /\ everreg (calls s c) = true.

(* the handler invocation that claimed a call *)
Definition WI (s : state) (c : Z) : Prop :=
  let k := calls s c in
  hc k = true -> selfclaim k = false ->
  exists d, writer k = Some d /\
    let x := dels s d in
    dmid x = mid k /\ dpcv x <> DIdle /\
    (if done k
     then res k = payload_result (dpay x) /\
          match dpay x with PRes v => out k = v /\ nwrites k = 1 | _ => nwrites k = 0 end
     else dpcv x = DClaimed c \/ exists ok, dpcv x = DDecoded c ok).

Record GI (mx : Z) (s : state) : Prop := mkGI {
  gi_mx : maxr s = mx;
  gi_li : forall c, LI mx (calls s c);
  gi_di : forall d, DI s d;
  gi_ri : RI s;
  gi_wi : forall c, WI s c
}.

Lemma GI_init : forall mx, 1 <= mx -> GI mx (init mx).
Proof.
  intros; constructor;
    [ reflexivity | intros; apply LI_call0; auto | intros d; unfold DI; cbn; auto
    | intros m c; cbn; discriminate | intros c; unfold WI; cbn; discriminate ].
Qed.

Lemma upd_eq : forall A (f : Z -> A) k v, upd f k v k = v.
Proof. intros; unfold upd; rewrite Z.eqb_refl; auto. Qed.
Lemma upd_neq : forall A (f : Z -> A) k v x, x <> k -> upd f k v x = f x.
Proof. intros; unfold upd; destruct (Z.eqb_spec x k); congruence. Qed.

Lemma calls_apply : forall s c k g x, calls (apply_geff s c k g) x = if Z.eqb x c then k else calls s x.
Proof. intros; destruct g; reflexivity. Qed.
Lemma dels_apply : forall s c k g, dels (apply_geff s c k g) = dels s.
Proof. intros; destruct g; reflexivity. Qed.
Lemma maxr_apply : forall s c k g, maxr (apply_geff s c k g) = maxr s.
Proof. intros; destruct g; reflexivity. Qed.

(* what a step on a call record may change, as seen by deliveries and the maps *)
Definition core_pres (k k' : call) : Prop :=
  (everreg k = true -> mid k' = mid k /\ everreg k' = true) /\
  (hc k = true -> writer k' = writer k /\ hc k' = true /\ done k' = done k /\ selfclaim k' = selfclaim k /\
                  nwrites k' = nwrites k /\ out k' = out k /\ res k' = res k) /\
  (hc k' = true -> selfclaim k' = false -> hc k = true).

Lemma core_refl : forall k, core_pres k k.
Proof. unfold core_pres; intuition. Qed.

Lemma caller_core : forall mx fc ec af c k e k' g,
  caller mx fc ec af c k e = Some (k', g) -> LI mx k -> core_pres k k'.
Proof.
  intros mx fc ec af c k e k' g H HL.
  destruct e; cbn [caller] in H; try discriminate H; brk H;
  inversion H; subst; clear H; unfold core_pres; cbn;
  try solve [intuition];
  destruct HL; repeat match goal with E : pc k = _ |- _ => rewrite E in *; clear E end; cbn in *;
  repeat split; intros; fin.
Qed.

Lemma DI_frame : forall s s' d,
  (forall c, core_pres (calls s c) (calls s' c)) -> dels s' d = dels s d -> DI s d -> DI s' d.
Proof.
  intros s s' d Hc Hd H. unfold DI in *. rewrite Hd. cbv zeta in *.
  destruct (dpcv (dels s d)) as [|h| |c|c|c|c ok|c f|c f|]; auto.
  - destruct h as [[c|]|]; auto. destruct H as [H1 H2]. destruct (Hc c) as [A _]. destruct (A H2). split; congruence.
  - destruct H as [H1 H2]. destruct (Hc c) as [A _]. destruct (A H2). split; congruence.
  - destruct H as [H1 H2]. destruct (Hc c) as [A _]. destruct (A H2). split; congruence.
  - destruct H as (H1 & H2 & H3 & H4 & H5 & H6 & H7). destruct (Hc c) as (A & B & _).
    destruct (A H2). destruct (B H4) as (B1 & B2 & B3 & B4 & B5 & B6 & B7). repeat split; congruence.
  - destruct H as (H1 & H2 & H3 & H4 & H5 & H6 & H7). destruct (Hc c) as (A & B & _).
    destruct (A H2). destruct (B H4) as (B1 & B2 & B3 & B4 & B5 & B6 & B7).
    repeat split; try congruence. destruct ok.
    + destruct H7 as (v & V1 & V2 & V3). exists v. repeat split; congruence.
    + destruct H7; split; congruence.
Qed.

Lemma hc_everreg : forall mx k, LI mx k -> hc k = true -> everreg k = true.
Proof. intros mx k HL H. destruct (everreg k) eqn:E; auto. destruct (li_reg _ _ HL E). congruence. Qed.

Lemma WI_frame : forall mx s s' c,
  core_pres (calls s c) (calls s' c) -> LI mx (calls s c) -> dels s' = dels s -> WI s c -> WI s' c.
Proof.
  intros mx s s' c (A & B & C) HL Hd H. unfold WI in *. cbv zeta in *. intros Hh Hs.
  pose proof (C Hh Hs) as Hh0. destruct (B Hh0) as (B1 & B2 & B3 & B4 & B5 & B6 & B7).
  destruct (A (hc_everreg _ _ HL Hh0)) as [A1 A2].
  rewrite B4 in Hs. destruct (H Hh0 Hs) as (d & W1 & W2 & W3 & W4).
  exists d. rewrite Hd, B1, A1, B3, B7, B6, B5. auto.
Qed.

Lemma step_caller_GI : forall mx s c e k' g,
  1 <= mx -> GI mx s ->
  caller (maxr s) (fclosed s) (eclosed s) (isNone (ackm s (mid (calls s c)))) c (calls s c) e = Some (k', g) ->
  (forall m h, g = GRpc m h -> m = mid (calls s c) /\ (forall c', h = Some (HReal c') -> c' = c /\ everreg k' = true)) ->
  GI mx (apply_geff s c k' g).
Proof.
  intros mx s c e k' g Hmx HG H Hg. destruct HG as [Gm Gl Gd Gr Gw]. rewrite Gm in H.
  pose proof (caller_LI _ _ _ _ _ _ _ _ _ Hmx H (Gl c)) as HL'.
  pose proof (caller_core _ _ _ _ _ _ _ _ _ H (Gl c)) as HC.
  assert (Hall : forall x, core_pres (calls s x) (calls (apply_geff s c k' g) x)).
  { intros x. rewrite calls_apply. destruct (Z.eqb_spec x c); subst; auto using core_refl. }
  constructor.
  - rewrite maxr_apply; auto.
  - intros x. rewrite calls_apply. destruct (Z.eqb_spec x c); subst; auto.
  - intros d. apply DI_frame with (s := s); auto. rewrite dels_apply; auto.
  - intros m c' Hm.
    assert (Hold : rpcm s m = Some (HReal c') -> mid (calls (apply_geff s c k' g) c') = m /\ everreg (calls (apply_geff s c k' g) c') = true).
    { intros Ho. destruct (Gr _ _ Ho) as [R1 R2]. destruct (Hall c') as [A _]. destruct (A R2). split; congruence. }
    destruct g as [|m0 h|m0 o]; cbn [apply_geff rpcm] in Hm; auto.
    unfold upd in Hm. destruct (Z.eqb_spec m m0); auto. subst m0.
    destruct (Hg m h eq_refl) as [G1 G2]. destruct (G2 c' Hm) as [G3 G4]. subst c'.
    rewrite calls_apply, Z.eqb_refl. split; auto.
    destruct HC as [A _]. destruct (everreg (calls s c)) eqn:E.
    + destruct (A eq_refl); congruence.
    + (* the call registers now: its msg id was fixed when it entered *)
      clear - H G1 E. destruct e; cbn [caller] in H; try discriminate H; brk H; inversion H; subst; cbn; auto; try discriminate.
  - intros x. apply WI_frame with (mx := mx) (s := s); auto. rewrite dels_apply; auto.
Qed.

Lemma caller_geff : forall mx fc ec af c k e k' m h,
  caller mx fc ec af c k e = Some (k', GRpc m h) ->
  m = mid k /\ (forall c', h = Some (HReal c') -> c' = c /\ everreg k' = true).
Proof.
  intros mx fc ec af c k e k' m h H.
  destruct e; cbn [caller] in H; try discriminate H; brk H; inversion H; subst; split; auto;
  intros c' Hc; inversion Hc; subst; cbn; auto.
Qed.

Lemma DI_other : forall s s' d' c0,
  dels s' d' = dels s d' -> (forall c, c <> c0 -> calls s' c = calls s c) ->
  mid (calls s' c0) = mid (calls s c0) -> everreg (calls s' c0) = everreg (calls s c0) ->
  writer (calls s c0) <> Some d' -> DI s d' -> DI s' d'.
Proof.
  intros s s' d' c0 Hd Ho Hm He Hw H. unfold DI in *. rewrite Hd. cbv zeta in *.
  assert (T : forall c, mid (calls s' c) = mid (calls s c) /\ everreg (calls s' c) = everreg (calls s c)).
  { intros c. destruct (Z.eq_dec c c0); subst; auto. rewrite Ho; auto. }
  destruct (dpcv (dels s d')) as [|h| |c|c|c|c ok|c f|c f|]; auto.
  - destruct h as [[c|]|]; auto. destruct (T c); destruct H; split; congruence.
  - destruct (T c); destruct H; split; congruence.
  - destruct (T c); destruct H; split; congruence.
  - destruct (Z.eq_dec c c0); subst.
    + destruct H as (_ & _ & W & _). congruence.
    + rewrite Ho; auto.
  - destruct (Z.eq_dec c c0); subst.
    + destruct H as (_ & _ & W & _). congruence.
    + rewrite Ho; auto.
Qed.

Lemma WI_deld : forall s s' c d,
  calls s' c = calls s c -> (forall d', d' <> d -> dels s' d' = dels s d') ->
  (dpcv (dels s d) <> DIdle ->
     dmid (dels s' d) = dmid (dels s d) /\ dpay (dels s' d) = dpay (dels s d) /\ dpcv (dels s' d) <> DIdle) ->
  ((dpcv (dels s d) = DClaimed c \/ exists ok, dpcv (dels s d) = DDecoded c ok) ->
     dpcv (dels s' d) = DClaimed c \/ exists ok, dpcv (dels s' d) = DDecoded c ok) ->
  WI s c -> WI s' c.
Proof.
  intros s s' c d Hc Ho HA HB H. unfold WI in *. cbv zeta in *. rewrite Hc. intros Hh Hs.
  destruct (H Hh Hs) as (d0 & W1 & W2 & W3 & W4). exists d0. split; auto.
  destruct (Z.eq_dec d0 d).
  - subst d0. destruct (HA W3) as (A1 & A2 & A3). rewrite A1, A2. repeat split; auto.
    destruct (done (calls s c)); auto.
  - rewrite Ho; auto.
Qed.

Lemma RI_other : forall s s' c0,
  rpcm s' = rpcm s -> (forall c, c <> c0 -> calls s' c = calls s c) ->
  mid (calls s' c0) = mid (calls s c0) -> everreg (calls s' c0) = everreg (calls s c0) -> RI s -> RI s'.
Proof.
  intros s s' c0 Hr Ho Hm He H m c Hc. rewrite Hr in Hc. destruct (H _ _ Hc).
  destruct (Z.eq_dec c c0); subst; [split; congruence | rewrite Ho; auto].
Qed.

(* a step that only moves delivery d (set_dpc) *)
Lemma GI_move : forall mx s d p,
  GI mx s -> p <> DIdle -> dpcv (dels s d) <> DIdle ->
  (forall c, (dpcv (dels s d) = DClaimed c \/ exists ok, dpcv (dels s d) = DDecoded c ok) ->
             (p = DClaimed c \/ exists ok, p = DDecoded c ok)) ->
  DI (set_del s d (set_dpc (dels s d) p)) d ->
  GI mx (set_del s d (set_dpc (dels s d) p)).
Proof.
  intros mx s d p [Gm Gl Gd Gr Gw] Hp Hx Hc1 Hd. constructor; auto.
  - intros d'. destruct (Z.eq_dec d' d); subst; auto.
    apply DI_frame with (s := s); auto using core_refl. cbn. rewrite upd_neq; auto.
  - intros c. apply WI_deld with (s := s) (d := d); auto.
    + intros d' Hn. cbn. rewrite upd_neq; auto.
    + intros _. cbn. rewrite upd_eq. cbn. auto.
    + cbn. rewrite upd_eq. cbn. auto.
Qed.

Ltac notcl := let c0 := fresh in let A := fresh in let ok := fresh in
  intros c0 [A | [ok A]]; congruence.

(* a step that changes call c0 without touching what deliveries and maps depend on *)
Lemma GI_call_soft : forall mx s c0 k',
  GI mx s -> LI mx k' -> core_pres (calls s c0) k' -> GI mx (set_call s c0 k').
Proof.
  intros mx s c0 k' [Gm Gl Gd Gr Gw] HL HC.
  assert (Hall : forall x, core_pres (calls s x) (calls (set_call s c0 k') x)).
  { intros x. unfold set_call. rewrite calls_apply. destruct (Z.eqb_spec x c0); subst; auto using core_refl. }
  constructor; auto.
  - intros x. unfold set_call. rewrite calls_apply. destruct (Z.eqb_spec x c0); subst; auto.
  - intros d. apply DI_frame with (s := s); auto.
  - intros m c Hm. change (rpcm s m = Some (HReal c)) in Hm. destruct (Gr _ _ Hm) as [R1 R2].
    destruct (Hall c) as [A _]. destruct (A R2). split; congruence.
  - intros x. apply WI_frame with (mx := mx) (s := s); auto.
Qed.

(* a handler step: call c changes to k', delivery d moves to p *)
Lemma GI_handler : forall mx s c d k' p,
  GI mx s -> LI mx k' ->
  mid k' = mid (calls s c) -> everreg k' = everreg (calls s c) ->
  (forall d', d' <> d -> writer (calls s c) <> Some d') ->
  p <> DIdle -> dpcv (dels s d) <> DIdle ->
  (forall c', c' <> c -> dpcv (dels s d) <> DClaimed c' /\ forall ok, dpcv (dels s d) <> DDecoded c' ok) ->
  DI (set_del (set_call s c k') d (set_dpc (dels s d) p)) d ->
  WI (set_del (set_call s c k') d (set_dpc (dels s d) p)) c ->
  GI mx (set_del (set_call s c k') d (set_dpc (dels s d) p)).
Proof.
  intros mx s c d k' p [Gm Gl Gd Gr Gw] HL Hm He Hw Hp Hx Hoth HD HW.
  set (s' := set_del (set_call s c k') d (set_dpc (dels s d) p)) in *.
  assert (Hcalls : forall x, x <> c -> calls s' x = calls s x).
  { intros x Hn. unfold s', set_call. cbn. rewrite upd_neq; auto. }
  assert (Hc : calls s' c = k').
  { unfold s', set_call. cbn. rewrite upd_eq; auto. }
  constructor; auto.
  - intros x. destruct (Z.eq_dec x c) as [->|]; [rewrite Hc; auto | rewrite Hcalls; auto].
  - intros d'. destruct (Z.eq_dec d' d) as [->|]; auto.
    apply DI_other with (s := s) (c0 := c); auto; try (rewrite Hc; auto).
    unfold s'. cbn. rewrite upd_neq; auto.
  - apply RI_other with (s := s) (c0 := c); auto; rewrite Hc; auto.
  - intros x. destruct (Z.eq_dec x c) as [->|n]; auto.
    apply WI_deld with (s := s) (d := d); auto.
    + intros d' Hn. unfold s'. cbn. rewrite upd_neq; auto.
    + intros _. unfold s'. cbn. rewrite upd_eq. cbn. auto.
    + destruct (Hoth x n) as [O1 O2]. intros [A | [ok A]]; [destruct (O1 A) | destruct (O2 _ A)].
Qed.

Lemma GI_calls_soft : forall mx s cs' am' fc ec us wl cr,
  GI mx s -> (forall c, LI mx (cs' c)) -> (forall c, core_pres (calls s c) (cs' c)) ->
  GI mx (mkState cs' (dels s) (rpcm s) am' fc ec (maxr s) us wl cr).
Proof.
  intros mx s cs' am' fc ec us wl cr [Gm Gl Gd Gr Gw] HL HC. constructor; auto.
  - intros d. apply DI_frame with (s := s); auto.
  - intros m c Hm. cbn in Hm. destruct (Gr _ _ Hm) as [R1 R2].
    destruct (HC c) as [A _]. destruct (A R2). cbn. split; congruence.
  - intros x. apply WI_frame with (mx := mx) (s := s); auto.
Qed.

Definition core_same (k k' : call) : Prop :=
  mid k' = mid k /\ everreg k' = everreg k /\ writer k' = writer k /\ hc k' = hc k /\ done k' = done k /\
  selfclaim k' = selfclaim k /\ nwrites k' = nwrites k /\ out k' = out k /\ res k' = res k /\
  seq k' = seq k /\ body k' = body k /\ pc k' = pc k.

Lemma core_same_pres : forall k k', core_same k k' -> core_pres k k'.
Proof.
  unfold core_same, core_pres. intros k k' (A1 & A2 & A3 & A4 & A5 & A6 & A7 & A8 & A9 & _).
  repeat split; intros; congruence.
Qed.

Lemma do_acks_inv : forall mx l cs am cs' am' cl,
  do_acks cs am l = (cs', am', cl) -> (forall c, LI mx (cs c)) ->
  (forall c, LI mx (cs' c)) /\ (forall c, core_same (cs c) (cs' c)).
Proof.
  induction l as [|m t IH]; intros cs am cs' am' cl H HL; cbn in H.
  - inversion H; subst. split; auto. intros c. unfold core_same. repeat split; auto.
  - destruct (am m) as [c0|] eqn:E.
    + destruct (do_acks (upd cs c0 (set_deliv (set_ackclosed (cs c0) true) true)) (upd am m None) t) as [[cs1 am1] cl1] eqn:E1.
      inversion H; subst. 
      assert (HL1 : forall c, LI mx (upd cs c0 (set_deliv (set_ackclosed (cs c0) true) true) c)).
      { intros c. unfold upd. destruct (Z.eqb_spec c c0); subst; auto using LI_ack. }
      destruct (IH _ _ _ _ _ E1 HL1) as [I1 I2]. split; auto.
      intros c. specialize (I2 c). unfold upd in I2. destruct (Z.eqb_spec c c0); subst; auto.
    + eauto.
Qed.

Ltac core_triv := apply core_same_pres; unfold core_same; cbn; repeat split; reflexivity.

Ltac ups := cbn; repeat (progress (rewrite ?upd_eq; cbn)).

Theorem step_GI : forall mx s e s', 1 <= mx -> GI mx s -> step s e = Some s' -> GI mx s'.
Proof.
  intros mx s e s' Hmx HG H. unfold step in H.
  destruct (ev_caller e) as [c|] eqn:Ec.
  { destruct (caller (maxr s) (fclosed s) (eclosed s) (isNone (ackm s (mid (calls s c)))) c (calls s c) e)
      as [[k' g]|] eqn:Hc; try discriminate H.
    assert (HG' : GI mx (apply_geff s c k' g)).
    { eapply step_caller_GI; eauto. intros m h ->. eapply caller_geff; eauto. }
    destruct e; inversion H; subst; auto.
    - destruct (used s m); inversion H; subst. destruct HG'. constructor; auto.
    - destruct HG'. constructor; auto. }
  pose proof HG as [Gm Gl Gd Gr Gw].
  destruct e; try discriminate Ec; cbv zeta in H.
  - (* NLookup *)
    destruct (dpcv (dels s d)) eqn:Ed; try discriminate H.
    destruct (payload_of k v) as [p|]; inversion H; subst; clear H.
    constructor; auto.
    + intros d'. destruct (Z.eq_dec d' d) as [->|].
      * unfold DI. ups. destruct (rpcm s m) as [[c|]|] eqn:Er; auto.
        destruct (Gr _ _ Er). split; auto.
      * apply DI_frame with (s := s); auto using core_refl. cbn. rewrite upd_neq; auto.
    + intros c. apply WI_deld with (s := s) (d := d); auto.
      * intros d' Hn. cbn. rewrite upd_neq; auto.
      * intros Hx. congruence.
      * intros [A | [ok A]]; congruence.
  - (* NUnknown *)
    destruct (dpcv (dels s d)) as [|[h|]| | | | | | | |] eqn:Ed; try discriminate H. inversion H; subst.
    apply GI_move; auto; try congruence; try notcl. unfold DI; ups; auto.
  - (* NEnter *)
    destruct (dpcv (dels s d)) as [|[[c'|]|]| | | | | | | |] eqn:Ed; try discriminate H.
    destruct (Z.eqb_spec c c'); inversion H; subst.
    apply GI_move; auto; try congruence; try notcl. pose proof (Gd d) as D. unfold DI in *. rewrite Ed in D.
    cbn. rewrite upd_eq. cbn. auto.
  - (* NDup *)
    destruct (dpcv (dels s d)) eqn:Ed; try discriminate H.
    destruct (Z.eqb_spec c c0); cbn in H; try discriminate H. destruct (hc (calls s c)); inversion H; subst.
    apply GI_move; auto; try congruence; try notcl. pose proof (Gd d) as D. unfold DI in *. rewrite Ed in D.
    cbn. rewrite upd_eq. cbn. auto.
  - (* NClaimed *)
    destruct (dpcv (dels s d)) eqn:Ed; try discriminate H.
    destruct (Z.eqb_spec c c0); cbn in H; try discriminate H. subst c0.
    destruct (hc (calls s c)) eqn:Eh; cbn in H; inversion H; subst; clear H.
    pose proof (Gd d) as D. unfold DI in D. rewrite Ed in D. destruct D as [D1 D2].
    destruct (li_hc0 _ _ (Gl c) Eh) as (L1 & L2 & L3 & L4).
    apply GI_handler; auto; try congruence.
    + apply LI_claim; auto.
    + intros c' Hn. rewrite Ed. split; intros; congruence.
    + unfold DI. ups. repeat split; auto.
    + unfold WI. ups. intros _ _. exists d. ups. rewrite L3.
      repeat split; auto; congruence.
  - (* NDecode *)
    destruct (dpcv (dels s d)) eqn:Ed; try discriminate H.
    pose proof (Gd d) as D. unfold DI in D. rewrite Ed in D. cbv zeta in D.
    destruct D as (D1 & D2 & D3 & D4 & D5 & D6 & D7).
    destruct (dpay (dels s d)) as [v'| |code] eqn:Ep; try discriminate H.
    + destruct (Z.eqb_spec c c0); cbn in H; try discriminate H. subst c0.
      destruct ok; cbn in H; try discriminate H. destruct (Z.eqb_spec v v'); inversion H; subst; clear H.
      apply GI_handler; auto; try congruence.
      * apply LI_write; auto; congruence.
      * intros c' Hn. rewrite Ed. split; intros; congruence.
      * unfold DI. ups. repeat split; auto. exists v'. repeat split; auto. lia.
      * unfold WI. ups. intros _ _. exists d. ups. rewrite D5.
        repeat split; eauto; congruence.
    + destruct (Z.eqb_spec c c0); cbn in H; try discriminate H. subst c0.
      destruct ok; cbn in H; inversion H; subst; clear H.
      apply GI_handler; auto; try congruence.
      * apply LI_touch; auto; congruence.
      * intros c' Hn. rewrite Ed. split; intros; congruence.
      * unfold DI. ups. repeat split; auto.
      * unfold WI. ups. intros _ _. exists d. ups. rewrite D5.
        repeat split; eauto; congruence.
  - (* NDoneClosed *)
    destruct (dpcv (dels s d)) eqn:Ed; try discriminate H.
    + (* DClaimed, PErr *)
      destruct (dpay (dels s d)) as [v'| |code] eqn:Ep; try discriminate H.
      destruct (Z.eqb_spec c c0); inversion H; subst; clear H.
      pose proof (Gd d) as D. unfold DI in D. rewrite Ed in D. cbv zeta in D.
      destruct D as (D1 & D2 & D3 & D4 & D5 & D6 & D7).
      apply GI_handler; auto; try congruence.
      * apply LI_done; auto.
      * intros c' Hn. rewrite Ed. split; intros; congruence.
      * unfold DI. ups. auto.
      * unfold WI. ups. intros _ _. exists d. ups. rewrite Ep. cbn.
        repeat split; auto; congruence.
    + (* DDecoded *)
      pose proof (Gd d) as D. unfold DI in D. rewrite Ed in D. cbv zeta in D.
      destruct D as (D1 & D2 & D3 & D4 & D5 & D6 & D7).
      destruct ok.
      * destruct (Z.eqb_spec c c0); inversion H; subst; clear H.
        destruct D7 as (v & V1 & V2 & V3).
        apply GI_handler; auto; try congruence.
        -- apply LI_done; auto.
        -- intros c' Hn. rewrite Ed. split; intros; congruence.
        -- unfold DI. ups. auto.
        -- unfold WI. ups. intros _ _. exists d. ups. rewrite V1. cbn.
           repeat split; auto; congruence.
      * destruct (Z.eqb_spec c c0); inversion H; subst; clear H.
        destruct D7 as (V1 & V2).
        apply GI_handler; auto; try congruence.
        -- apply LI_done; auto.
        -- intros c' Hn. rewrite Ed. split; intros; congruence.
        -- unfold DI. ups. auto.
        -- unfold WI. ups. intros _ _. exists d. ups. rewrite V1. cbn.
           repeat split; auto; congruence.
  - (* NRetryClosed *)
    destruct (dpcv (dels s d)) eqn:Ed; try discriminate H.
    destruct (Z.eqb_spec c c0); inversion H; subst; clear H.
    apply (GI_move _ (set_call s c0 (set_deliv (set_rcancel (calls s c0) true) true)) d (DRetryClosed c0 fin)); try (cbn; congruence); try (cbn; notcl).
    + apply GI_call_soft; auto. apply LI_rclose; auto. core_triv.
    + unfold DI. ups. auto.
  - (* NFinish *)
    destruct (dpcv (dels s d)) as [|[[c'|]|]| | | | | | | |] eqn:Ed; try discriminate H;
    match type of H with (if ?b then _ else _) = _ => destruct b end; inversion H; subst;
    (apply GI_move; auto; try congruence; try notcl; unfold DI; ups; auto).
  - (* XAcks *)
    destruct (do_acks (calls s) (ackm s) l) as [[cs am] cl] eqn:Ea.
    destruct (zlist_eqb cl l2); inversion H; subst; clear H.
    destruct (do_acks_inv _ _ _ _ _ _ _ Ea Gl) as [A1 A2].
    apply GI_calls_soft; auto. intros c. apply core_same_pres; auto.
  - (* XCancel *)
    inversion H; subst. apply GI_call_soft; auto. apply LI_cancel; auto. core_triv.
  - (* XTimerFire *)
    destruct (armed (calls s c)); inversion H; subst. apply GI_call_soft; auto. apply LI_fire; auto. core_triv.
  - inversion H; subst. constructor; auto.
  - inversion H; subst. constructor; auto.
  - match type of H with (if ?b then _ else _) = _ => destruct b end; inversion H; subst. constructor; auto.
Qed.

Theorem run_GI : forall mx tr s s', 1 <= mx -> GI mx s -> run s tr = Some s' -> GI mx s'.
Proof.
  induction tr as [|e t IH]; intros s s' Hmx HG H; cbn in H.
  - inversion H; subst; auto.
  - destruct (step s e) as [s1|] eqn:E; try discriminate. apply (IH s1 s' Hmx); auto. eapply step_GI; eauto.
Qed.

(* ---------- progress after ForceClose ---------- *)
Definition rank (p : cpc) : nat :=
  match p with
  | PIdle => 0 | PReturned _ => 0 | PSettled _ => 1 | PAwait _ => 2 | PUnreg _ => 3 | PFinal _ => 4
  | PDropped => 5 | PNop => 6 | PWaitCtx => 7 | PWaitClosed => 7 | PWait => 8 | PRetried _ => 9 | PExit _ => 10
  | PSelClosed => 11 | PSelect => 12 | PSentGo => 13 | PTimerGo => 14 | PSelTimer => 15 | PAckWait => 16
  | PRegistered => 17 | PEntered => 18
  end%nat.

Definition drank (s : state) (c : Z) : nat :=
  let k := calls s c in
  if done k then 0%nat else
  match writer k with
  | Some d => match dpcv (dels s d), dpay (dels s d) with
              | DClaimed _, PErr _ => 1 | DClaimed _, _ => 2 | DDecoded _ _, _ => 1 | _, _ => 0
              end
  | None => 0
  end%nat.

Definition mu (s : state) (c : Z) : nat :=
  (3 * rank (pc (calls s c)) + match pc (calls s c) with PAwait _ => drank s c | _ => 0 end)%nat.

Definition pending (p : cpc) : bool := match p with PIdle | PReturned _ => false | _ => true end.
Definition pre_ack (p : cpc) : bool := match p with PEntered | PRegistered => true | _ => false end.

Lemma drank_le : forall s c, (drank s c <= 2)%nat.
Proof.
  intros. unfold drank. destruct (done (calls s c)); auto.
  destruct (writer (calls s c)); auto. destruct (dpcv (dels s z)); auto; destruct (dpay (dels s z)); auto.
Qed.

Lemma ret_matches_code : forall r, ret_matches r (fst (ret_code r)) (snd (ret_code r)) = true.
Proof. intros r. unfold ret_matches. destruct (ret_code r). cbn. rewrite !Z.eqb_refl. auto. Qed.

Ltac stepc Epc :=
  unfold step; cbn [ev_caller]; cbv zeta; cbn [caller]; rewrite ?Epc; cbn [caller].

Ltac fin2 := cbn; rewrite ?upd_eq; cbn; repeat split; auto; try discriminate; try lia.

Lemma progress_step : forall mx s c,
  1 <= mx -> GI mx s -> fclosed s = true ->
  pending (pc (calls s c)) = true ->
  (pre_ack (pc (calls s c)) = true -> ackm s (mid (calls s c)) = None) ->
  exists e s', is_env e = false /\ step s e = Some s' /\ fclosed s' = true /\
               (pre_ack (pc (calls s' c)) = true -> ackm s' (mid (calls s' c)) = None) /\
               (mu s' c < mu s c)%nat.
Proof.
  intros mx s c Hmx HG Hf Hp Hack.
  pose proof HG as [Gm Gl Gd Gr Gw]. pose proof (Gl c) as HL.
  unfold mu.
  destruct (pc (calls s c)) eqn:Epc; try discriminate Hp.
  - (* PEntered *)
    exists (CRegistered c). eexists. split; [reflexivity|]. split; [stepc Epc; reflexivity|].
    fin2.
  - (* PRegistered *)
    exists (CAckWait c). eexists. split; [reflexivity|]. split; [stepc Epc; rewrite (Hack eq_refl); reflexivity|].
    fin2.
  - (* PAckWait *)
    exists (CSend c (mid (calls s c)) (seq (calls s c)) (body (calls s c)) 0). eexists. split; [reflexivity|].
    split; [stepc Epc; rewrite !Z.eqb_refl; cbn; rewrite ?Epc; reflexivity|].
    fin2.
  - (* PSentGo *)
    destruct (tmade (calls s c)) eqn:Et.
    + exists (CSelect c). eexists. split; [reflexivity|]. split; [stepc Epc; rewrite Et; reflexivity|]. fin2.
    + exists (CSelect c). eexists. split; [reflexivity|]. split; [stepc Epc; rewrite Et; reflexivity|]. fin2.
  - (* PSelect *)
    exists (CSelClosed c). eexists. split; [reflexivity|]. split; [stepc Epc; rewrite Hf; reflexivity|].
    fin2.
  - (* PSelClosed *)
    destruct (ackclosed (calls s c)) eqn:Ea; [|destruct (rcancel (calls s c)) eqn:Er].
    + exists (CClosedAcked c). eexists. split; [reflexivity|]. split; [stepc Epc; rewrite Ea; reflexivity|].
      fin2.
    + exists (CClosedCtx c). eexists. split; [reflexivity|]. split; [stepc Epc; rewrite Er; reflexivity|].
      fin2.
    + exists (CClosedUnacked c). eexists. split; [reflexivity|]. split; [stepc Epc; rewrite Ea, Er; reflexivity|].
      fin2.
  - (* PSelTimer *)
    destruct (ackclosed (calls s c)) eqn:Ea; [|destruct (rcancel (calls s c)) eqn:Er].
    + exists (CTimerAcked c). eexists. split; [reflexivity|]. split; [stepc Epc; rewrite Ea; reflexivity|].
      fin2.
    + exists (CTimerCtx c). eexists. split; [reflexivity|]. split; [stepc Epc; rewrite Er; reflexivity|].
      fin2.
    + exists (CTimerGo c). eexists. split; [reflexivity|]. split; [stepc Epc; rewrite Ea, Er; reflexivity|].
      fin2.
  - (* PTimerGo *)
    destruct (Z.geb (retries (calls s c) + 1) (maxr s)) eqn:Eg.
    + exists (CSend c (mid (calls s c)) (seq (calls s c)) (body (calls s c)) 0). eexists. split; [reflexivity|].
      split; [stepc Epc; rewrite !Z.eqb_refl; cbn; rewrite ?Epc; cbn; rewrite Eg; reflexivity|]. fin2.
    + exists (CSend c (mid (calls s c)) (seq (calls s c)) (body (calls s c)) 0). eexists. split; [reflexivity|].
      split; [stepc Epc; rewrite !Z.eqb_refl; cbn; rewrite ?Epc; cbn; rewrite Eg; reflexivity|]. fin2.
  - (* PExit *)
    exists (CRetried c). eexists. split; [reflexivity|]. split; [stepc Epc; reflexivity|].
    fin2.
  - (* PRetried *)
    assert (W : exists s', step s (CWait c) = Some s' /\ fclosed s' = true /\ pc (calls s' c) = PWait
                           \/ exists r, step s (CRetryErr c) = Some s' /\ fclosed s' = true /\ pc (calls s' c) = PFinal r).
    { destruct l; try (eexists; left; split; [stepc Epc; reflexivity|]; cbn; rewrite !upd_eq; auto);
      try (eexists; right; eexists; split; [stepc Epc; reflexivity|]; cbn; rewrite !upd_eq; cbn; eauto).
      destruct (rcancel (calls s c)) eqn:Er.
      - eexists; left; split; [stepc Epc; rewrite Er; reflexivity|]; cbn; rewrite !upd_eq; auto.
      - eexists; right; eexists; split; [stepc Epc; rewrite Er; reflexivity|]; cbn; rewrite !upd_eq; cbn; eauto. }
    destruct W as [s' [(W1 & W2 & W3) | (r & W1 & W2 & W3)]].
    + exists (CWait c), s'. rewrite W3. fin2.
    + exists (CRetryErr c), s'. rewrite W3. fin2.
  - (* PWait *)
    exists (CWaitClosed c). eexists. split; [reflexivity|]. split; [stepc Epc; rewrite Hf; reflexivity|].
    fin2.
  - (* PWaitCtx *)
    destruct (sent (calls s c)) eqn:Es.
    + exists (CNop c). eexists. split; [reflexivity|]. split; [stepc Epc; rewrite Es; reflexivity|].
      fin2.
    + exists (CUnregistered c). eexists. split; [reflexivity|]. split; [stepc Epc; rewrite Es; reflexivity|].
      fin2.
  - (* PNop *)
    exists (CDrop c (mid (calls s c)) 0). eexists. split; [reflexivity|].
    split; [stepc Epc; rewrite Z.eqb_refl; reflexivity|].
    fin2.
  - (* PDropped *)
    exists (CUnregistered c). eexists. split; [reflexivity|]. split; [stepc Epc; reflexivity|].
    fin2.
  - (* PWaitClosed *)
    destruct (done (calls s c)) eqn:Ed.
    + exists (CWaitClosedDone c). eexists. split; [reflexivity|]. split; [stepc Epc; rewrite Ed; reflexivity|].
      fin2.
    + exists (CWaitClosedNoDone c). eexists. split; [reflexivity|]. split; [stepc Epc; rewrite Ed; reflexivity|].
      fin2.
  - (* PFinal *)
    exists (CUnregistered c). eexists. split; [reflexivity|]. split; [stepc Epc; reflexivity|].
    fin2.
  - (* PUnreg *)
    destruct (hc (calls s c)) eqn:Eh.
    + exists (CAwait c). eexists. split; [reflexivity|]. split; [stepc Epc; rewrite Eh; reflexivity|].
      split; [cbn; auto|]. split; [cbn; rewrite !upd_eq; cbn; discriminate|].
      match goal with |- (_ + match pc (calls ?s' c) with _ => _ end < _)%nat => pose proof (drank_le s' c) end.
      cbn in *. rewrite !upd_eq in *. cbn in *. lia.
    + exists (CSettled c). eexists. split; [reflexivity|]. split; [stepc Epc; rewrite Eh; reflexivity|].
      fin2.
  - (* PAwait *)
    destruct (done (calls s c)) eqn:Ed.
    + exists (CSettled c). eexists. split; [reflexivity|]. split; [stepc Epc; rewrite Ed; reflexivity|].
      fin2.
    + (* the handler invocation that claimed the call finishes *)
      pose proof (li_await _ _ HL) as Hh. rewrite Epc in Hh.
      assert (Hs : selfclaim (calls s c) = false) by (apply (li_selfpc _ _ HL); rewrite Epc; reflexivity).
      destruct (Gw c Hh Hs) as (d & W1 & W2 & W3 & W4). rewrite Ed in W4.
      pose proof (Gd d) as D. unfold DI in D. cbv zeta in D.
      destruct W4 as [W4 | [ok W4]]; rewrite W4 in D.
      * destruct (dpay (dels s d)) as [v| |code] eqn:Epay.
        -- exists (NDecode d c true v). eexists. split; [reflexivity|].
           split; [unfold step; cbn [ev_caller]; cbv zeta; rewrite W4, Epay, !Z.eqb_refl; reflexivity|].
           split; [cbn; auto|]. split; [cbn; rewrite !upd_eq; cbn; rewrite Epc; discriminate|].
           unfold drank. cbn. rewrite !upd_eq. cbn. rewrite Epc, Ed, W1, upd_eq. cbn. rewrite W4, Epay. unfold rank; lia.
        -- exists (NDecode d c false 0). eexists. split; [reflexivity|].
           split; [unfold step; cbn [ev_caller]; cbv zeta; rewrite W4, Epay, !Z.eqb_refl; reflexivity|].
           split; [cbn; auto|]. split; [cbn; rewrite !upd_eq; cbn; rewrite Epc; discriminate|].
           unfold drank. cbn. rewrite !upd_eq. cbn. rewrite Epc, Ed, W1, upd_eq. cbn. rewrite W4, Epay. unfold rank; lia.
        -- exists (NDoneClosed d c). eexists. split; [reflexivity|].
           split; [unfold step; cbn [ev_caller]; cbv zeta; rewrite W4, Epay, !Z.eqb_refl; reflexivity|].
           split; [cbn; auto|]. split; [cbn; rewrite !upd_eq; cbn; rewrite Epc; discriminate|].
           unfold drank. cbn. rewrite !upd_eq. cbn. rewrite Epc, Ed, W1, W4, Epay. unfold rank; lia.
      * destruct ok.
        -- exists (NDoneClosed d c). eexists. split; [reflexivity|].
           split; [unfold step; cbn [ev_caller]; cbv zeta; rewrite W4, !Z.eqb_refl; reflexivity|].
           split; [cbn; auto|]. split; [cbn; rewrite !upd_eq; cbn; rewrite Epc; discriminate|].
           unfold drank. cbn. rewrite !upd_eq. cbn. rewrite Epc, Ed, W1, W4. destruct (dpay (dels s d)); unfold rank; lia.
        -- exists (NDoneClosed d c). eexists. split; [reflexivity|].
           split; [unfold step; cbn [ev_caller]; cbv zeta; rewrite W4, !Z.eqb_refl; reflexivity|].
           split; [cbn; auto|]. split; [cbn; rewrite !upd_eq; cbn; rewrite Epc; discriminate|].
           unfold drank. cbn. rewrite !upd_eq. cbn. rewrite Epc, Ed, W1, W4. destruct (dpay (dels s d)); unfold rank; lia.
  - (* PSettled *)
    exists (CReturn c (fst (ret_code r)) (snd (ret_code r)) (retryable r) (retryable_tg r)). eexists. split; [reflexivity|].
    split; [stepc Epc; rewrite ret_matches_code, !eqb_reflx; reflexivity|].
    fin2.
Qed.

(* ---------- the identity of a call is fixed when it enters ---------- *)
Definition ident_pres (k k' : call) : Prop :=
  pc k <> PIdle -> pc k' <> PIdle /\ mid k' = mid k /\ seq k' = seq k /\ body k' = body k.

Lemma caller_ident : forall mx fc ec af c k e k' g,
  caller mx fc ec af c k e = Some (k', g) -> ident_pres k k'.
Proof.
  intros mx fc ec af c k e k' g H Hn.
  destruct e; cbn [caller] in H; try discriminate H; brk H; inversion H; subst; cbn; try congruence;
  repeat split; auto; discriminate.
Qed.

Lemma post_shape : forall (s s1 s' : state) (c : Z) (e : ev),
  match e with
  | CEntered _ m _ _ => if used s m then None else Some (set_wgl (mark_used s1 m) (c :: wgl (mark_used s1 m)))
  | CReturn _ _ _ _ _ => Some (set_wgl s1 (zremove c (wgl s1)))
  | _ => Some s1
  end = Some s' ->
  calls s' = calls s1 /\ dels s' = dels s1 /\ rpcm s' = rpcm s1 /\ ackm s' = ackm s1 /\
  fclosed s' = fclosed s1 /\ eclosed s' = eclosed s1 /\ maxr s' = maxr s1.
Proof.
  intros s s1 s' c e H. destruct e; try (inversion H; subst; repeat split; reflexivity).
  destruct (used s m); inversion H; subst. repeat split; reflexivity.
Qed.

Lemma step_ident : forall s e s' c, step s e = Some s' -> ident_pres (calls s c) (calls s' c).
Proof.
  intros s e s' c H. unfold step in H.
  destruct (ev_caller e) as [c0|] eqn:Ec.
  { destruct (caller (maxr s) (fclosed s) (eclosed s) (isNone (ackm s (mid (calls s c0)))) c0 (calls s c0) e)
      as [[k' g]|] eqn:Hc; try discriminate H.
    destruct (post_shape _ _ _ _ _ H) as (A & _). rewrite A.
    rewrite calls_apply. destruct (Z.eqb_spec c c0); subst; [eapply caller_ident; eauto | intros ?; auto]. }
  assert (R : forall k, ident_pres k k) by (intros k Hn; auto).
  destruct e; try discriminate Ec; cbv zeta in H;
  try solve [brk H; inversion H; subst; clear H; cbn; unfold upd; try destruct (Z.eqb_spec c c0); subst; try apply R;
             intros Hn; cbn; auto].
  (* XAcks *)
  destruct (do_acks (calls s) (ackm s) l) as [[cs am] cl] eqn:Ea.
  destruct (zlist_eqb cl l2); inversion H; subst; clear H.
  assert (A : forall l cs am cs' am' cl, do_acks cs am l = (cs', am', cl) -> forall c, core_same (cs c) (cs' c)).
  { clear. induction l as [|m t IH]; intros cs am cs' am' cl H c; cbn in H.
    - inversion H; subst. unfold core_same. repeat split; auto.
    - destruct (am m) as [c0|] eqn:E; [|eauto].
      destruct (do_acks (upd cs c0 (set_deliv (set_ackclosed (cs c0) true) true)) (upd am m None) t) as [[cs1 am1] cl1] eqn:E1.
      inversion H; subst. pose proof (IH _ _ _ _ _ E1 c) as I2. unfold upd in I2.
      destruct (Z.eqb_spec c c0); subst; auto. }
  destruct (A _ _ _ _ _ _ Ea c) as (A1 & _ & _ & _ & _ & _ & _ & _ & _ & A10 & A11 & A12).
  intros Hn. cbn. rewrite A12, A1, A10, A11. auto.
Qed.

Lemma run_ident : forall tr s s' c, run s tr = Some s' -> ident_pres (calls s c) (calls s' c).
Proof.
  induction tr as [|e t IH]; intros s s' c H; cbn in H.
  - inversion H; subst. intros Hn; auto.
  - destruct (step s e) as [s1|] eqn:E; try discriminate. intros Hn.
    destruct (step_ident _ _ _ c E Hn) as (A1 & A2 & A3 & A4).
    destruct (IH _ _ c H A1) as (B1 & B2 & B3 & B4). repeat split; congruence.
Qed.

Lemma pending_rank : forall p, pending p = true -> (1 <= rank p)%nat.
Proof. destruct p; cbn; intros; try discriminate; lia. Qed.

Lemma pending_or_returned : forall p, p <> PIdle -> pending p = true \/ is_returned p = true.
Proof. destruct p; cbn; intros; auto; congruence. Qed.

Theorem progress_after_close : forall mx, 1 <= mx -> forall n s c,
  GI mx s -> fclosed s = true -> pending (pc (calls s c)) = true ->
  (pre_ack (pc (calls s c)) = true -> ackm s (mid (calls s c)) = None) ->
  (mu s c <= n)%nat ->
  exists es s', Forall (fun e => is_env e = false) es /\ run s es = Some s' /\
                is_returned (pc (calls s' c)) = true /\ (length es <= n)%nat.
Proof.
  intros mx Hmx. induction n as [|n IH]; intros s c HG Hf Hp Hack Hmu.
  - pose proof (pending_rank _ Hp). unfold mu in Hmu. lia.
  - destruct (progress_step mx s c Hmx HG Hf Hp Hack) as (e & s1 & E1 & E2 & E3 & E4 & E5).
    assert (HG1 : GI mx s1) by (eapply step_GI; eauto).
    assert (Hn : pc (calls s c) <> PIdle) by (destruct (pc (calls s c)); cbn in Hp; congruence).
    destruct (step_ident _ _ _ c E2 Hn) as (N1 & _).
    destruct (pending_or_returned _ N1) as [P | R].
    + destruct (IH s1 c HG1 E3 P E4) as (es & s' & F1 & F2 & F3 & F4); [lia|].
      exists (e :: es), s'. repeat split; auto.
      * cbn. rewrite E2. auto.
      * cbn. lia.
    + exists [e], s1. repeat split; auto.
      * cbn. rewrite E2. auto.
      * cbn. lia.
Qed.

Lemma mu_bound : forall s c, (mu s c <= 56)%nat.
Proof.
  intros. unfold mu. pose proof (drank_le s c). destruct (pc (calls s c)); cbn; lia.
Qed.

(* ---------- the statements used by Prop/C24.v, Prop/C25.v, Prop/C26.v ---------- *)
Definition reach (mx : Z) (s : state) : Prop := exists tr, run (init mx) tr = Some s.

Lemma reach_GI : forall mx s, 1 <= mx -> reach mx s -> GI mx s.
Proof. intros mx s Hmx [tr H]. eapply run_GI; eauto. apply GI_init; auto. Qed.

(* C24 *)
Lemma c24_once : forall mx s c, 1 <= mx -> reach mx s ->
  nret (calls s c) <= 1 /\
  (is_returned (pc (calls s c)) = true -> forall rc rd a b, step s (CReturn c rc rd a b) = None).
Proof.
  intros mx s c Hmx HR. pose proof (reach_GI _ _ Hmx HR) as [_ Gl _ _ _].
  split.
  - rewrite (li_nret _ _ (Gl c)). destruct (is_returned (pc (calls s c))); lia.
  - intros Hret rc rd a b. unfold step. cbn [ev_caller]. cbv zeta. cbn [caller].
    destruct (pc (calls s c)); try discriminate Hret; reflexivity.
Qed.

Lemma c24_return_value : forall mx s c r, 1 <= mx -> reach mx s ->
  pc (calls s c) = PReturned r -> is_result r = true ->
  exists d, writer (calls s c) = Some d /\ dmid (dels s d) = mid (calls s c) /\
            payload_result (dpay (dels s d)) = r /\
            match dpay (dels s d) with
            | PRes v => out (calls s c) = v /\ nwrites (calls s c) = 1
            | _ => nwrites (calls s c) = 0
            end.
Proof.
  intros mx s c r Hmx HR Hpc Hres. pose proof (reach_GI _ _ Hmx HR) as [_ Gl _ _ Gw].
  pose proof (Gl c) as HL. pose proof (li_result _ _ HL) as LR. rewrite Hpc in LR. cbn in LR.
  destruct (LR Hres) as [Hd Hr].
  assert (Hh : hc (calls s c) = true).
  { destruct (hc (calls s c)) eqn:E; auto. destruct (li_hc0 _ _ HL E) as (_ & _ & D & _). congruence. }
  assert (Hs : selfclaim (calls s c) = false).
  { destruct (selfclaim (calls s c)) eqn:E; auto. destruct (li_self _ _ HL E) as (_ & _ & D). congruence. }
  destruct (Gw c Hh Hs) as (d & W1 & W2 & W3 & W4). rewrite Hd in W4. destruct W4 as [W4 W5].
  exists d. repeat split; auto. congruence.
Qed.

Lemma c24_write : forall mx s1 s2 d c ok v, 1 <= mx -> reach mx s1 ->
  step s1 (NDecode d c ok v) = Some s2 ->
  dmid (dels s1 d) = mid (calls s1 c) /\ settled_pc (pc (calls s1 c)) = false /\
  is_returned (pc (calls s1 c)) = false /\
  (if ok then dpay (dels s1 d) = PRes v else dpay (dels s1 d) = PBad).
Proof.
  intros mx s1 s2 d c ok v Hmx HR H. pose proof (reach_GI _ _ Hmx HR) as [_ Gl Gd _ _].
  unfold step in H. cbn [ev_caller] in H. cbv zeta in H.
  destruct (dpcv (dels s1 d)) eqn:Ed; try discriminate H.
  pose proof (Gd d) as D. unfold DI in D. rewrite Ed in D. cbv zeta in D.
  destruct D as (D1 & D2 & D3 & D4 & D5 & D6 & D7).
  assert (S : settled_pc (pc (calls s1 c0)) = false).
  { destruct (settled_pc (pc (calls s1 c0))) eqn:E; auto.
    destruct (li_settled _ _ (Gl c0) E D2) as [_ [W | W]]; congruence. }
  assert (R : is_returned (pc (calls s1 c0)) = false).
  { destruct (pc (calls s1 c0)); cbn in *; congruence. }
  destruct (dpay (dels s1 d)) as [v'| |code] eqn:Ep; try discriminate H.
  - destruct (Z.eqb_spec c c0); cbn in H; try discriminate H. subst c0.
    destruct ok; cbn in H; try discriminate H.
    destruct (Z.eqb_spec v v'); try discriminate H. subst v'. repeat split; auto.
  - destruct (Z.eqb_spec c c0); cbn in H; try discriminate H. subst c0.
    destruct ok; cbn in H; try discriminate H. repeat split; auto.
Qed.

Lemma c24_ghosts : forall mx s c, 1 <= mx -> reach mx s -> late (calls s c) = false /\ isobad (calls s c) = false.
Proof.
  intros mx s c Hmx HR. pose proof (reach_GI _ _ Hmx HR) as [_ Gl _ _ _].
  split; [apply (li_late _ _ (Gl c)) | apply (li_iso _ _ (Gl c))].
Qed.

(* C25 *)
Lemma c25_identity : forall mx tr1 tr2 s1 s2 s3 c m q b o,
  run (init mx) tr1 = Some s1 -> pc (calls s1 c) <> PIdle -> run s1 tr2 = Some s2 ->
  step s2 (CSend c m q b o) = Some s3 ->
  m = mid (calls s1 c) /\ q = seq (calls s1 c) /\ b = body (calls s1 c).
Proof.
  intros mx tr1 tr2 s1 s2 s3 c m q b o _ Hn H2 H.
  destruct (run_ident _ _ _ c H2 Hn) as (_ & I1 & I2 & I3).
  unfold step in H. cbn [ev_caller] in H. cbv zeta in H. cbn [caller] in H.
  destruct (Z.eqb_spec m (mid (calls s2 c))); cbn in H; try discriminate H.
  destruct (Z.eqb_spec q (seq (calls s2 c))); cbn in H; try discriminate H.
  destruct (Z.eqb_spec b (body (calls s2 c))); cbn in H; try discriminate H.
  repeat split; congruence.
Qed.

Lemma c25_bound : forall mx s c, 1 <= mx -> reach mx s ->
  nsends (calls s c) <= 1 + mx /\
  (forall r, pc (calls s c) = PReturned r -> (r = RLimit <-> retries (calls s c) = mx)).
Proof.
  intros mx s c Hmx HR. pose proof (reach_GI _ _ Hmx HR) as [_ Gl _ _ _]. pose proof (Gl c) as HL.
  split.
  - destruct (pre_send (pc (calls s c))) eqn:E1; [destruct (li_pre _ _ HL E1); lia|].
    destruct (in_loop (pc (calls s c))) eqn:E2; [destruct (li_loop _ _ HL E2); lia|].
    assert (E3 : after_loop (pc (calls s c)) = true) by (unfold after_loop; rewrite E1, E2; reflexivity).
    destruct (li_after _ _ HL E3); lia.
  - intros r Hpc. pose proof (li_after _ _ HL) as LA. rewrite Hpc in LA. cbn in LA.
    destruct (LA eq_refl) as (_ & _ & L1 & L2). destruct r; cbn in *;
    split; intros; try discriminate; auto; try (specialize (L2 eq_refl); lia).
Qed.

Lemma c25_quiet : forall mx s c, 1 <= mx -> reach mx s ->
  viol25 (calls s c) = false /\ violleft (calls s c) = false /\
  (pc (calls s c) = PTimerGo -> snap25 (calls s c) = false /\ ackclosed (calls s c) || rcancel (calls s c) = deliv (calls s c)).
Proof.
  intros mx s c Hmx HR. pose proof (reach_GI _ _ Hmx HR) as [_ Gl _ _ _]. pose proof (Gl c) as HL.
  repeat split; try apply HL; auto. symmetry; apply HL.
Qed.

Lemma c25_retransmits : forall mx s c, 1 <= mx -> reach mx s ->
  (pc (calls s c) = PSelect -> armed (calls s c) || tval (calls s c) = true) /\
  (pc (calls s c) = PSelect -> tval (calls s c) = true -> exists s', step s (CSelTimer c) = Some s') /\
  (pc (calls s c) = PSelTimer -> ackclosed (calls s c) = false -> rcancel (calls s c) = false ->
     exists s1 s2, step s (CTimerGo c) = Some s1 /\
       step s1 (CSend c (mid (calls s c)) (seq (calls s c)) (body (calls s c)) 0) = Some s2 /\
       nsends (calls s2 c) = nsends (calls s c) + 1).
Proof.
  intros mx s c Hmx HR. pose proof (reach_GI _ _ Hmx HR) as [_ Gl _ _ _]. pose proof (Gl c) as HL.
  repeat split.
  - intros Hpc. pose proof (li_timer _ _ HL) as T. rewrite Hpc in T. auto.
  - intros Hpc Ht. eexists. unfold step. cbn [ev_caller]. cbv zeta. cbn [caller]. rewrite Hpc, Ht. reflexivity.
  - intros Hpc Ha Hr.
    destruct (Z.geb (retries (calls s c) + 1) (maxr s)) eqn:Eg;
    (eexists; eexists; split;
     [unfold step; cbn [ev_caller]; cbv zeta; cbn [caller]; rewrite Hpc, Ha, Hr; reflexivity|];
     cbn; rewrite ?upd_eq; cbn; rewrite !Z.eqb_refl; cbn; rewrite Eg; cbn; rewrite ?upd_eq; cbn; split; [reflexivity | cbn; rewrite ?upd_eq; reflexivity]).
Qed.

(* C26 *)
Lemma c26_progress : forall mx s c, 1 <= mx -> reach mx s -> fclosed s = true ->
  pending (pc (calls s c)) = true ->
  (pre_ack (pc (calls s c)) = true -> ackm s (mid (calls s c)) = None) ->
  exists es s', Forall (fun e => is_env e = false) es /\ run s es = Some s' /\
                is_returned (pc (calls s' c)) = true /\ (length es <= 56)%nat.
Proof.
  intros mx s c Hmx HR Hf Hp Hack.
  apply (progress_after_close mx Hmx 56%nat s c); auto using reach_GI, mu_bound.
Qed.

Lemma c26_class : forall mx s c, 1 <= mx -> reach mx s ->
  viol26 (calls s c) = false /\
  (pc (calls s c) = PReturned RClosedRetryable ->
     snap26 (calls s c) = false /\ selfclaim (calls s c) = true /\ writer (calls s c) = None /\
     nwrites (calls s c) = 0 /\ done (calls s c) = false) /\
  (pc (calls s c) = PReturned RClosedAcked -> deliv (calls s c) = true).
Proof.
  intros mx s c Hmx HR. pose proof (reach_GI _ _ Hmx HR) as [_ Gl _ _ _]. pose proof (Gl c) as HL.
  split; [apply (li_v26 _ _ HL)|]. split.
  - intros Hpc. pose proof (li_retryable _ _ HL) as R. rewrite Hpc in R.
    destruct (li_self _ _ HL R) as (S1 & S2 & S3).
    repeat split; auto. apply (li_unacked _ _ HL). rewrite Hpc. reflexivity.
  - intros Hpc. apply (li_acked _ _ HL). rewrite Hpc. reflexivity.
Qed.

Lemma c26_drop : forall mx s c r, 1 <= mx -> reach mx s -> pc (calls s c) = PReturned r ->
  ndrops (calls s c) = match r with RCtx => if sent (calls s c) then 1 else 0 | _ => 0 end.
Proof.
  intros mx s c r Hmx HR Hpc. pose proof (reach_GI _ _ Hmx HR) as [_ Gl _ _ _].
  rewrite (li_drops _ _ (Gl c)). unfold drops_of. rewrite Hpc. reflexivity.
Qed.
