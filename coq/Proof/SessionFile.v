(* Proofs for C31: crash atomicity of the temp-file + fsync + rename sequence. *)
From Coq Require Import List ZArith Bool Arith Lia.
From TD Require Import Lib.CrashFS Model.SessionFile Run.Check_C31.
Import ListNotations.

(* ---- association lists ---- *)
Lemma aset_aset {A} k (a b : A) l : aset k b (aset k a l) = aset k b l.
Proof.
  induction l as [|[k' v'] t IH]; cbn.
  - rewrite Nat.eqb_refl; reflexivity.
  - destruct (Nat.eqb k k') eqn:E; cbn; rewrite ?Nat.eqb_refl, ?E; [reflexivity|rewrite IH; reflexivity].
Qed.
Lemma aget_aset_same {A} k (a : A) l : aget k (aset k a l) = Some a.
Proof.
  induction l as [|[k' v'] t IH]; cbn.
  - rewrite Nat.eqb_refl; reflexivity.
  - destruct (Nat.eqb k k') eqn:E; cbn; rewrite ?Nat.eqb_refl, ?E; auto.
Qed.

(* ---- runs and crash prefixes of concatenations ---- *)
Lemma run_app st a b :
  run st (a ++ b) = match run st a with Some st' => run st' b | None => None end.
Proof.
  revert st; induction a as [|o a IH]; intros st; cbn; [reflexivity|].
  destruct (step st o); [apply IH|reflexivity].
Qed.

Lemma crash_prefixes_app lens a b p :
  In p (crash_prefixes_gen lens (a ++ b)) ->
  In p (crash_prefixes_gen lens a) \/ exists q, In q (crash_prefixes_gen lens b) /\ p = a ++ q.
Proof.
  revert p; induction a as [|o a IH]; intros p H.
  - right; exists p; auto.
  - cbn [app crash_prefixes_gen] in H. destruct H as [H|H].
    + left; cbn; auto.
    + apply in_app_or in H; destruct H as [H|H].
      * left; cbn; right; apply in_or_app; auto.
      * apply in_map_iff in H; destruct H as [p' [<- Hp']].
        destruct (IH _ Hp') as [H1|[q [Hq ->]]].
        -- left; cbn; right; apply in_or_app; right; apply in_map; exact H1.
        -- right; exists q; auto.
Qed.

(* ---- the write phase ---- *)
Definition wrote (st : fs) (i : ino) (nd : inode) (w : bytes) : fs :=
  with_inodes st (aset i {| i_dur := i_dur nd; i_vol := i_vol nd ++ w; i_dirty := true |} (inodes st)).

Lemma step_write st fd i nd d :
  aget fd (fds st) = Some (FFile i) -> aget i (inodes st) = Some nd ->
  step st (OWrite fd d) = Some (wrote st i nd d).
Proof. intros H1 H2; cbn; rewrite H1, H2; reflexivity. Qed.

Lemma wrote_wrote st i nd a b :
  wrote (wrote st i nd a) i {| i_dur := i_dur nd; i_vol := i_vol nd ++ a; i_dirty := true |} b
  = wrote st i nd (a ++ b).
Proof. unfold wrote, with_inodes; cbn. rewrite aset_aset, app_assoc; reflexivity. Qed.

(* every crash point inside the write phase: the file behind [fd] holds its previous
   content plus some bytes, nothing else changed *)
Lemma writes_crash cs : forall st fd i nd q,
  aget fd (fds st) = Some (FFile i) -> aget i (inodes st) = Some nd ->
  In q (crash_prefixes (writes fd cs)) ->
  run st q = Some st \/ exists w, run st q = Some (wrote st i nd w).
Proof.
  induction cs as [|c cs IH]; intros st fd i nd q Hfd Hi Hq.
  - cbn in Hq; destruct Hq as [<-|[]]; left; reflexivity.
  - cbn [writes map crash_prefixes crash_prefixes_gen] in Hq. destruct Hq as [<-|Hq]; [left; reflexivity|].
    apply in_app_or in Hq; destruct Hq as [Hq|Hq].
    + cbn in Hq; apply in_map_iff in Hq; destruct Hq as [p [<- _]].
      right; exists (firstn p c). cbn [run]. rewrite (step_write _ _ _ _ _ Hfd Hi); reflexivity.
    + apply in_map_iff in Hq; destruct Hq as [q' [<- Hq']]. right.
      cbn [run]. rewrite (step_write _ _ _ _ _ Hfd Hi).
      assert (Hi' : aget i (inodes (wrote st i nd c)) = Some {| i_dur := i_dur nd; i_vol := i_vol nd ++ c; i_dirty := true |})
        by (cbn; apply aget_aset_same).
      destruct (IH (wrote st i nd c) fd i _ q' Hfd Hi' Hq') as [H|[w H]].
      * exists c; exact H.
      * exists (c ++ w). rewrite H, wrote_wrote; reflexivity.
Qed.

Lemma writes_run cs : forall st fd i nd,
  aget fd (fds st) = Some (FFile i) -> aget i (inodes st) = Some nd ->
  (cs = [] /\ run st (writes fd cs) = Some st) \/ run st (writes fd cs) = Some (wrote st i nd (concat cs)).
Proof.
  induction cs as [|c cs IH]; intros st fd i nd Hfd Hi.
  - left; auto.
  - right. cbn [writes map run]. rewrite (step_write _ _ _ _ _ Hfd Hi).
    assert (Hi' : aget i (inodes (wrote st i nd c)) = Some {| i_dur := i_dur nd; i_vol := i_vol nd ++ c; i_dirty := true |})
      by (cbn; apply aget_aset_same).
    destruct (IH (wrote st i nd c) fd i _ Hfd Hi') as [[-> H]|H].
    + cbn [concat]. rewrite app_nil_r. exact H.
    + fold (writes fd cs). rewrite H, wrote_wrote; reflexivity.
Qed.

(* ---- the theorem, from any start state with leftover files ---- *)
Ltac fin := repeat match goal with
                   | H : In _ (_ :: _) |- _ => destruct H
                   | H : In _ [] |- _ => destruct H
                   | H : _ \/ _ |- _ => destruct H
                   | H : False |- _ => destruct H
                   | H : _ = ?c |- _ => is_var c; subst c
                   end; auto.

Lemma in_crash_states m n st0 os c :
  In c (crash_states m n st0 os) ->
  exists p, In p (crash_prefixes os) /\
            In c (match run st0 p with Some st => map Some (crash m n st) | None => [None] end).
Proof. unfold crash_states, crash_states_gen; intros H; apply in_flat_map in H; exact H. Qed.

Lemma aget_aset_other {A} k k' (a : A) l : k <> k' -> aget k (aset k' a l) = aget k l.
Proof.
  intros N; induction l as [|[q v] t IH]; cbn.
  - destruct (Nat.eqb_spec k k'); [contradiction|reflexivity].
  - destruct (Nat.eqb_spec k' q); cbn.
    + subst q. destruct (Nat.eqb_spec k k'); [contradiction|reflexivity].
    + destruct (Nat.eqb k q); auto.
Qed.
Lemma aget_left_dir_none left : forall i j, (j < i \/ i + length left <= j) -> aget j (left_dir i left) = None.
Proof.
  induction left as [|b t IH]; intros i j H; cbn; auto.
  destruct (Nat.eqb_spec j i); [cbn in H; lia|]. apply IH. cbn in H; lia.
Qed.

Section Leftovers.
  Variable cur : option bytes.
  Variable left : list bytes.
  Let t := S (length left).

  Definition hd_i : list (ino * inode) := match cur with Some b => [(0, clean_with b)] | None => [] end.
  Definition hd_d : list (name * ino) := match cur with Some _ => [(0, 0)] | None => [] end.
  Definition D0 := hd_d ++ left_dir 1 left.
  Definition CR := [DCreate t t; DRename t tgt].
  Definition D2 := apply_dirops D0 CR.
  (* the states a save goes through: inode t is the temporary file *)
  Definition mid (nd : inode) (dd : list (name * ino)) (pnd : list dirop) (f : list (fdn * fdt)) : fs :=
    {| inodes := hd_i ++ aset t nd (left_inodes 1 left); ddir := dd; pend := pnd; fds := f; next := S t |}.

  Lemma fresh_dir : aget t D0 = None.
  Proof. unfold D0, hd_d, t; destruct cur; cbn; apply aget_left_dir_none; lia. Qed.
  Lemma aget_t_inodes nd : aget t (hd_i ++ aset t nd (left_inodes 1 left)) = Some nd.
  Proof. unfold hd_i, t; destruct cur; cbn; apply aget_aset_same. Qed.
  Lemma aset_t_inodes nd nd' :
    aset t nd' (hd_i ++ aset t nd (left_inodes 1 left)) = hd_i ++ aset t nd' (left_inodes 1 left).
  Proof. unfold hd_i, t; destruct cur; cbn; rewrite aset_aset; reflexivity. Qed.
  Lemma aset_t_init nd : aset t nd (hd_i ++ left_inodes 1 left) = hd_i ++ aset t nd (left_inodes 1 left).
  Proof. unfold hd_i, t; destruct cur; cbn; reflexivity. Qed.

  Definition fresh : inode := {| i_dur := []; i_vol := []; i_dirty := false |}.

  Lemma open_left :
    step (init_left cur left) (OOpen 0 t true true false) = Some (mid fresh D0 [DCreate t t] [(0, FFile t)]).
  Proof.
    unfold step, vdir, init_left; cbn [fds pend ddir inodes next apply_dirops fold_left aget].
    unfold mid, D0, hd_i, hd_d.
    destruct cur; cbn [aget app Nat.eqb]; unfold t at 1; cbn [Nat.eqb];
      first [rewrite (aget_left_dir_none left 1 t) by (unfold t; lia)
            |rewrite (aget_left_dir_none left 1 (S (length left))) by lia]; reflexivity.
  Qed.
  Lemma wrote_mid nd dd p f w :
    wrote (mid nd dd p f) t nd w = mid {| i_dur := i_dur nd; i_vol := i_vol nd ++ w; i_dirty := true |} dd p f.
  Proof. unfold wrote, with_inodes, mid; cbn [inodes ddir pend fds next]. rewrite aset_t_inodes. reflexivity. Qed.
  Lemma fsync_mid nd dd p :
    step (mid nd dd p [(0, FFile t)]) (OFsync 0) = Some (mid (clean_with (i_vol nd)) dd p [(0, FFile t)]).
  Proof.
    unfold step; cbn [fds mid aget Nat.eqb inodes]. rewrite aget_t_inodes.
    unfold with_inodes, mid; cbn [inodes ddir pend fds next]. rewrite aset_t_inodes. reflexivity.
  Qed.
  Lemma rename_mid nd : step (mid nd D0 [DCreate t t] []) (ORename t tgt) = Some (mid nd D0 CR []).
  Proof.
    unfold step, vdir; cbn [mid pend ddir apply_dirops fold_left apply_dirop].
    rewrite aget_aset_same. reflexivity.
  Qed.
  Lemma dirsync_mid nd : step (mid nd D0 CR [(1, FDir)]) (OFsync 1) = Some (mid nd D2 [] [(1, FDir)]).
  Proof. reflexivity. Qed.

  (* what the target entry shows *)
  Lemma tgt_old ps : ps = [] \/ ps = [DCreate t t] ->
    aget tgt (apply_dirops D0 ps) = match cur with Some _ => Some 0 | None => None end.
  Proof.
    intros [->| ->]; cbn [apply_dirops fold_left apply_dirop].
    - unfold D0, hd_d, tgt; destruct cur; cbn; auto. apply aget_left_dir_none; lia.
    - rewrite aget_aset_other by (unfold tgt, t; lia).
      unfold D0, hd_d, tgt; destruct cur; cbn; auto. apply aget_left_dir_none; lia.
  Qed.
  Lemma tgt_new : aget tgt D2 = Some t.
  Proof. unfold D2, CR; cbn [apply_dirops fold_left apply_dirop]. rewrite aget_aset_same. apply aget_aset_same. Qed.

  Lemma view_old pick nd ps :
    (forall b, pick (clean_with b) = [b]) -> ps = [] \/ ps = [DCreate t t] ->
    content_in (hd_i ++ aset t nd (left_inodes 1 left)) (apply_dirops D0 ps) tgt pick = [cur].
  Proof.
    intros Hp Hps. unfold content_in. rewrite (tgt_old ps Hps). unfold hd_i. destruct cur; [|reflexivity].
    cbn. rewrite Hp. reflexivity.
  Qed.
  Lemma view_new pick nd :
    content_in (hd_i ++ aset t nd (left_inodes 1 left)) D2 tgt pick = map Some (pick nd).
  Proof. unfold content_in. rewrite tgt_new, aget_t_inodes. reflexivity. Qed.

  Lemma pickP_clean b : (fun x : inode => [i_vol x]) (clean_with b) = [b].
  Proof. reflexivity. Qed.
  Lemma pickW_clean b : power_pick prefixes (clean_with b) = [b].
  Proof. reflexivity. Qed.

  (* phase A: before the rename the target shows [cur] *)
  Lemma crash_A m nd f p c : p = [] \/ p = [DCreate t t] -> In c (crash m tgt (mid nd D0 p f)) -> c = cur.
  Proof.
    intros Hp H. destruct m; unfold crash, crash_gen, vdir in H; cbn [mid inodes ddir pend] in H.
    - rewrite (view_old _ nd p pickP_clean Hp) in H. fin.
    - apply in_flat_map in H. destruct H as [ps [Hps H]].
      rewrite (view_old _ nd ps pickW_clean) in H; [fin|].
      destruct Hp as [->| ->]; cbn in Hps; fin.
  Qed.
  (* phase B: renamed, directory not synced, temporary inode synced with [new] *)
  Lemma crash_B m new f c : In c (crash m tgt (mid (clean_with new) D0 CR f)) -> c = cur \/ c = Some new.
  Proof.
    intros H. destruct m; unfold crash, crash_gen, vdir in H; cbn [mid inodes ddir pend] in H.
    - fold D2 in H. rewrite view_new in H. cbn in H. fin.
    - apply in_flat_map in H. destruct H as [ps [Hps H]]. cbn in Hps. destruct Hps as [<-|[<-|[<-|[]]]].
      + rewrite (view_old _ _ [] pickW_clean (or_introl eq_refl)) in H. fin.
      + rewrite (view_old _ _ [DCreate t t] pickW_clean (or_intror eq_refl)) in H. fin.
      + fold CR D2 in H. rewrite view_new in H. cbn in H. fin.
  Qed.
  (* phase C: directory synced *)
  Lemma crash_C m new f c : In c (crash m tgt (mid (clean_with new) D2 [] f)) -> c = Some new.
  Proof.
    intros H. destruct m; unfold crash, crash_gen, vdir in H; cbn [mid inodes ddir pend apply_dirops fold_left] in H.
    - rewrite view_new in H. cbn in H. fin.
    - cbn [list_prefixes flat_map apply_dirops fold_left app] in H. rewrite view_new, app_nil_r in H. cbn in H. fin.
  Qed.

  (* the start state shows [cur] *)
  Lemma crash_init m c : In c (crash m tgt (init_left cur left)) -> c = cur.
  Proof.
    unfold crash, crash_gen, vdir, init_left, content_in, tgt.
    destruct m, cur; cbn; rewrite ?app_nil_r, ?(aget_left_dir_none left 1 0) by lia; cbn; intros H; fin.
  Qed.

  Lemma store_atomic_left : forall (new : bytes) (chunks : list bytes) (dirsync : bool)
                                   (m : crash_model) (c : option (option bytes)),
    concat chunks = new ->
    In c (crash_states m tgt (init_left cur left) (store_ops_named t chunks dirsync)) ->
    c = Some cur \/ c = Some (Some new).
  Proof.
    intros new chunks dirsync m c Hnew Hc.
    apply in_crash_states in Hc; destruct Hc as [p [Hp Hc]].
    unfold store_ops_named, crash_prefixes in Hp.
    apply crash_prefixes_app in Hp; destruct Hp as [Hp|[q [Hq ->]]].
    { (* before / right after the open of the temporary file *)
      cbn in Hp; destruct Hp as [<-|[<-|[]]].
      - cbn [run] in Hc. apply in_map_iff in Hc. destruct Hc as [x [<- Hx]]. left. f_equal. exact (crash_init _ _ Hx).
      - cbn [run] in Hc. rewrite open_left in Hc. apply in_map_iff in Hc. destruct Hc as [x [<- Hx]].
        left. f_equal. eapply crash_A; [right; reflexivity|exact Hx]. }
    rewrite run_app in Hc. cbn [run] in Hc. rewrite open_left in Hc.
    apply crash_prefixes_app in Hq; destruct Hq as [Hq|[r [Hr ->]]].
    { (* inside the write phase *)
      destruct (writes_crash chunks (mid fresh D0 [DCreate t t] [(0, FFile t)]) 0 t fresh q eq_refl (aget_t_inodes fresh) Hq) as [H|[w H]];
        rewrite H in Hc; [|rewrite wrote_mid in Hc];
        apply in_map_iff in Hc; destruct Hc as [x [<- Hx]]; left; f_equal; (eapply crash_A; [right; reflexivity|exact Hx]). }
    (* after the write phase *)
    rewrite run_app in Hc.
    assert (Hw : exists nd, run (mid fresh D0 [DCreate t t] [(0, FFile t)]) (writes 0 chunks)
                            = Some (mid nd D0 [DCreate t t] [(0, FFile t)]) /\ i_vol nd = new).
    { destruct (writes_run chunks (mid fresh D0 [DCreate t t] [(0, FFile t)]) 0 t fresh eq_refl (aget_t_inodes fresh)) as [[-> H]|H].
      - exists fresh; split; [exact H|cbn in Hnew; subst new; reflexivity].
      - rewrite wrote_mid in H. eexists; split; [exact H|cbn; exact Hnew]. }
    destruct Hw as [nd [Hw Hv]]. rewrite Hw in Hc. clear Hw.
    (* the remaining prefixes: fsync, close, rename, [open dir, fsync dir, close] *)
    assert (Post : forall r', In r' (crash_prefixes_gen all_lens ([OFsync 0; OClose 0; ORename t tgt] ++ (if dirsync then [OOpenDir 1; OFsync 1; OClose 1] else []))) ->
              forall x, In x (match run (mid nd D0 [DCreate t t] [(0, FFile t)]) r' with Some st => map Some (crash m tgt st) | None => [None] end) ->
              x = Some cur \/ x = Some (Some new)).
    { intros r' Hr' x Hx.
      assert (A : forall nd' f, In x (map Some (crash m tgt (mid nd' D0 [DCreate t t] f))) -> x = Some cur \/ x = Some (Some new))
        by (intros nd' f Hi; apply in_map_iff in Hi; destruct Hi as [y [<- Hy]]; left; f_equal; eapply crash_A; [right; reflexivity|exact Hy]).
      assert (B : forall f, In x (map Some (crash m tgt (mid (clean_with new) D0 CR f))) -> x = Some cur \/ x = Some (Some new))
        by (intros f Hi; apply in_map_iff in Hi; destruct Hi as [y [<- Hy]]; destruct (crash_B _ _ _ _ Hy) as [->| ->]; auto).
      assert (C : forall f, In x (map Some (crash m tgt (mid (clean_with new) D2 [] f))) -> x = Some cur \/ x = Some (Some new))
        by (intros f Hi; apply in_map_iff in Hi; destruct Hi as [y [<- Hy]]; rewrite (crash_C _ _ _ _ Hy); auto).
      destruct dirsync; cbn in Hr';
        repeat (destruct Hr' as [<-|Hr']; [cbn [run] in Hx;
                  rewrite ?fsync_mid, ?Hv in Hx; cbn [run] in Hx;
                  change (step (mid (clean_with new) D0 [DCreate t t] [(0, FFile t)]) (OClose 0)) with (Some (mid (clean_with new) D0 [DCreate t t] [])) in Hx;
                  cbn [run] in Hx; rewrite ?rename_mid in Hx; cbn [run] in Hx;
                  change (step (mid (clean_with new) D0 CR []) (OOpenDir 1)) with (Some (mid (clean_with new) D0 CR [(1, FDir)])) in Hx;
                  cbn [run] in Hx; rewrite ?dirsync_mid in Hx; cbn [run] in Hx;
                  change (step (mid (clean_with new) D2 [] [(1, FDir)]) (OClose 1)) with (Some (mid (clean_with new) D2 [] [])) in Hx;
                  cbn [run] in Hx; eauto |]); destruct Hr'. }
    eapply Post; eauto.
  Qed.
  (* what a process crash before the rename leaves behind IS a start state of the same
     family, with one more leftover file: so [store_atomic_left] applies to the next save,
     and by induction to any number of interrupted saves *)
  Lemma aset_fresh_append {A} k (v : A) l : aget k l = None -> aset k v l = l ++ [(k, v)].
  Proof.
    induction l as [|[q x] r IH]; cbn; auto. destruct (Nat.eqb k q); [discriminate|].
    intros H; rewrite IH; auto.
  Qed.
  Lemma aget_left_inodes_none l : forall i j, (j < i \/ i + length l <= j) -> aget j (left_inodes i l) = None.
  Proof.
    induction l as [|b r IH]; intros i j H; cbn; auto.
    destruct (Nat.eqb_spec j i); [cbn in H; lia|]. apply IH. cbn in H; lia.
  Qed.
  Lemma left_inodes_app l : forall i b, left_inodes i (l ++ [b]) = left_inodes i l ++ [(i + length l, clean_with b)].
  Proof.
    induction l as [|x r IH]; intros i b; cbn; [rewrite Nat.add_0_r; reflexivity|].
    rewrite IH. replace (S i + length r) with (i + S (length r)) by lia. reflexivity.
  Qed.
  Lemma left_dir_app l : forall i b, left_dir i (l ++ [b]) = left_dir i l ++ [(i + length l, i + length l)].
  Proof.
    induction l as [|x r IH]; intros i b; cbn; [rewrite Nat.add_0_r; reflexivity|].
    rewrite IH. replace (S i + length r) with (i + S (length r)) by lia. reflexivity.
  Qed.
  Lemma flatten_left_inodes l : forall i, map (fun e => (fst e, flatten_inode (snd e))) (left_inodes i l) = left_inodes i l.
  Proof. induction l as [|x r IH]; intros i; cbn; [reflexivity|rewrite IH; reflexivity]. Qed.

  Lemma crash_before_rename_is_next_start nd f :
    recover_process (mid nd D0 [DCreate t t] f) = init_left cur (left ++ [i_vol nd]).
  Proof.
    unfold recover_process, vdir, mid, init_left, D0; cbn [inodes ddir pend fds next apply_dirops fold_left apply_dirop].
    rewrite app_length; cbn [length]. replace (length left + 1) with t by (unfold t; lia).
    f_equal.
    - rewrite (aset_fresh_append t nd (left_inodes 1 left)) by (apply aget_left_inodes_none; unfold t; lia).
      rewrite !map_app, flatten_left_inodes, left_inodes_app. cbn [map fst snd]. unfold hd_i, flatten_inode, clean_with, t.
      destruct cur; cbn; reflexivity.
    - rewrite left_dir_app. unfold hd_d, t. destruct cur; cbn [app].
      + cbn [aset Nat.eqb]. rewrite aset_fresh_append by (apply aget_left_dir_none; lia). reflexivity.
      + rewrite aset_fresh_append by (apply aget_left_dir_none; lia). reflexivity.
  Qed.

  (* the complete sequence (directory sync included) leaves the new content, durably *)
  Lemma store_durable_left : forall (new : bytes) (chunks : list bytes),
    concat chunks = new ->
    exists st, run (init_left cur left) (store_ops_named t chunks true) = Some st /\
               crash Process tgt st = [Some new] /\ crash Power tgt st = [Some new].
  Proof.
    intros new chunks Hnew. unfold store_ops_named.
    rewrite run_app. cbn [run]. rewrite open_left. rewrite run_app.
    assert (Hw : exists nd, run (mid fresh D0 [DCreate t t] [(0, FFile t)]) (writes 0 chunks)
                            = Some (mid nd D0 [DCreate t t] [(0, FFile t)]) /\ i_vol nd = new).
    { destruct (writes_run chunks (mid fresh D0 [DCreate t t] [(0, FFile t)]) 0 t fresh eq_refl (aget_t_inodes fresh)) as [[-> H]|H].
      - exists fresh; split; [exact H|cbn in Hnew; subst new; reflexivity].
      - rewrite wrote_mid in H. eexists; split; [exact H|cbn; exact Hnew]. }
    destruct Hw as [nd [Hw Hv]]. rewrite Hw. clear Hw.
    cbn [run app]. rewrite fsync_mid, Hv.
    change (step (mid (clean_with new) D0 [DCreate t t] [(0, FFile t)]) (OClose 0)) with (Some (mid (clean_with new) D0 [DCreate t t] [])).
    cbn [run]. rewrite rename_mid.
    change (step (mid (clean_with new) D0 CR []) (OOpenDir 1)) with (Some (mid (clean_with new) D0 CR [(1, FDir)])).
    cbn [run]. rewrite dirsync_mid.
    change (step (mid (clean_with new) D2 [] [(1, FDir)]) (OClose 1)) with (Some (mid (clean_with new) D2 [] [])).
    cbn [run]. eexists; split; [reflexivity|].
    unfold crash, crash_gen, vdir; cbn [mid inodes ddir pend apply_dirops fold_left list_prefixes flat_map].
    rewrite app_nil_r, !view_new. split; reflexivity.
  Qed.
End Leftovers.

(* ---- chains of saves: from any durable directory state ----
   [good st cur]: nothing pending, nothing open, the session file holds [cur] in a synced
   inode (or does not exist), inode numbers from [next st] on are unused.  Whatever else is
   in the directory (leftovers of interrupted saves, other files) is arbitrary. *)
(* failure branches of writeFileAtomic: a write/sync/close/rename error is followed by Close and
   Remove(tmp); no rename has happened: every crash state still shows the previous content *)
Definition fail_ops (t : name) (chunks : list bytes) (synced : bool) : list op :=
  [OOpen 0 t true true false] ++ writes 0 chunks ++ (if synced then [OFsync 0] else []) ++ [OClose 0; OUnlink t].

Lemma aget_adel_other {A} k k' (l : list (nat * A)) : k <> k' -> aget k (adel k' l) = aget k l.
Proof.
  intros N; induction l as [|[q v] r IH]; cbn; auto.
  destruct (Nat.eqb_spec k' q); cbn.
  - subst q. destruct (Nat.eqb_spec k k'); [contradiction|exact IH].
  - destruct (Nat.eqb k q); auto.
Qed.

Record good (st : fs) (cur : option bytes) : Prop := {
  g_pend : pend st = [];
  g_fds : fds st = [];
  g_tgt : match cur with
          | Some b => exists i, aget tgt (ddir st) = Some i /\ aget i (inodes st) = Some (clean_with b)
          | None => aget tgt (ddir st) = None
          end;
  g_next : forall i, next st <= i -> aget i (inodes st) = None
}.

Section OneSave.
  Variable st0 : fs.
  Variable cur : option bytes.
  Variable t : name.
  Hypothesis G : good st0 cur.
  Hypothesis Ht : aget t (ddir st0) = None.
  Hypothesis Hne : t <> tgt.
  Let n := next st0.
  Let I0 := inodes st0.
  Let Dg := ddir st0.
  Definition CRg := [DCreate t n; DRename t tgt].
  Definition D2g := apply_dirops Dg CRg.
  Definition midg (nd : inode) (dd : list (name * ino)) (pnd : list dirop) (f : list (fdn * fdt)) : fs :=
    {| inodes := aset n nd I0; ddir := dd; pend := pnd; fds := f; next := S n |}.

  Lemma n_fresh : aget n I0 = None.
  Proof. apply (g_next _ _ G). unfold n; lia. Qed.
  Lemma open_g : step st0 (OOpen 0 t true true false) = Some (midg fresh Dg [DCreate t n] [(0, FFile n)]).
  Proof.
    unfold step, vdir. rewrite (g_fds _ _ G), (g_pend _ _ G). cbn [aget apply_dirops fold_left].
    rewrite Ht. reflexivity.
  Qed.
  Lemma aget_n nd : aget n (aset n nd I0) = Some nd.
  Proof. apply aget_aset_same. Qed.
  Lemma wrote_g nd dd p f w :
    wrote (midg nd dd p f) n nd w = midg {| i_dur := i_dur nd; i_vol := i_vol nd ++ w; i_dirty := true |} dd p f.
  Proof. unfold wrote, with_inodes, midg; cbn [inodes ddir pend fds next]. rewrite aset_aset. reflexivity. Qed.
  Lemma fsync_g nd dd p :
    step (midg nd dd p [(0, FFile n)]) (OFsync 0) = Some (midg (clean_with (i_vol nd)) dd p [(0, FFile n)]).
  Proof.
    unfold step; cbn [fds midg aget Nat.eqb inodes]. rewrite aget_n.
    unfold with_inodes, midg; cbn [inodes ddir pend fds next]. rewrite aset_aset. reflexivity.
  Qed.
  Lemma rename_g nd : step (midg nd Dg [DCreate t n] []) (ORename t tgt) = Some (midg nd Dg CRg []).
  Proof.
    unfold step, vdir; cbn [midg pend ddir apply_dirops fold_left apply_dirop].
    rewrite aget_aset_same. reflexivity.
  Qed.
  Lemma dirsync_g nd : step (midg nd Dg CRg [(1, FDir)]) (OFsync 1) = Some (midg nd D2g [] [(1, FDir)]).
  Proof. reflexivity. Qed.

  Lemma tgt_old_g ps : ps = [] \/ ps = [DCreate t n] -> aget tgt (apply_dirops Dg ps) = aget tgt Dg.
  Proof.
    intros [->| ->]; cbn [apply_dirops fold_left apply_dirop]; [reflexivity|].
    apply aget_aset_other. congruence.
  Qed.
  Lemma tgt_new_g : aget tgt D2g = Some n.
  Proof. unfold D2g, CRg; cbn [apply_dirops fold_left apply_dirop]. rewrite aget_aset_same. apply aget_aset_same. Qed.

  Lemma tgt_view :
    (exists b i, cur = Some b /\ aget tgt Dg = Some i /\ aget i I0 = Some (clean_with b)) \/
    (cur = None /\ aget tgt Dg = None).
  Proof.
    pose proof (g_tgt _ _ G) as T. destruct cur as [b|].
    - destruct T as [i [Hd Hi]]. left. exists b, i. auto.
    - right. auto.
  Qed.
  Lemma view_old_g pick nd ps :
    (forall b, pick (clean_with b) = [b]) -> ps = [] \/ ps = [DCreate t n] ->
    content_in (aset n nd I0) (apply_dirops Dg ps) tgt pick = [cur].
  Proof.
    intros Hp Hps. unfold content_in. rewrite (tgt_old_g ps Hps).
    destruct tgt_view as [[b [i [E [Hd Hi]]]]|[E T]]; rewrite E.
    - rewrite Hd.
      assert (i <> n) by (intros ->; rewrite n_fresh in Hi; discriminate).
      rewrite aget_aset_other by assumption. rewrite Hi. cbn. rewrite Hp. reflexivity.
    - rewrite T. reflexivity.
  Qed.
  Lemma view_new_g pick nd : content_in (aset n nd I0) D2g tgt pick = map Some (pick nd).
  Proof. unfold content_in. rewrite tgt_new_g, aget_n. reflexivity. Qed.

  Lemma crash_A_g m nd f p c : p = [] \/ p = [DCreate t n] -> In c (crash m tgt (midg nd Dg p f)) -> c = cur.
  Proof.
    intros Hp H. destruct m; unfold crash, crash_gen, vdir in H; cbn [midg inodes ddir pend] in H.
    - rewrite (view_old_g _ nd p (fun b => eq_refl) Hp) in H. fin.
    - apply in_flat_map in H. destruct H as [ps [Hps H]].
      rewrite (view_old_g _ nd ps (fun b => eq_refl)) in H; [fin|].
      destruct Hp as [->| ->]; cbn in Hps; fin.
  Qed.
  Lemma crash_B_g m new f c : In c (crash m tgt (midg (clean_with new) Dg CRg f)) -> c = cur \/ c = Some new.
  Proof.
    intros H. destruct m; unfold crash, crash_gen, vdir in H; cbn [midg inodes ddir pend] in H.
    - fold D2g in H. rewrite view_new_g in H. cbn in H. fin.
    - apply in_flat_map in H. destruct H as [ps [Hps H]]. cbn in Hps. destruct Hps as [<-|[<-|[<-|[]]]].
      + rewrite (view_old_g _ _ [] (fun b => eq_refl) (or_introl eq_refl)) in H. fin.
      + rewrite (view_old_g _ _ [DCreate t n] (fun b => eq_refl) (or_intror eq_refl)) in H. fin.
      + fold CRg D2g in H. rewrite view_new_g in H. cbn in H. fin.
  Qed.
  Lemma crash_C_g m new f c : In c (crash m tgt (midg (clean_with new) D2g [] f)) -> c = Some new.
  Proof.
    intros H. destruct m; unfold crash, crash_gen, vdir in H; cbn [midg inodes ddir pend apply_dirops fold_left] in H.
    - rewrite view_new_g in H. cbn in H. fin.
    - cbn [list_prefixes flat_map apply_dirops fold_left app] in H. rewrite view_new_g, app_nil_r in H. cbn in H. fin.
  Qed.
  Lemma crash_init_g m c : In c (crash m tgt st0) -> c = cur.
  Proof.
    intros H.
    unfold crash, crash_gen, vdir in H. rewrite (g_pend _ _ G) in H.
    cbn [apply_dirops fold_left list_prefixes flat_map] in H. rewrite ?app_nil_r in H. unfold content_in in H.
    destruct tgt_view as [[b [i [E [Hd Hi]]]]|[E T]]; rewrite E.
    - fold Dg I0 in H. rewrite Hd, Hi in H. destruct m; cbn in H; fin.
    - fold Dg in H. rewrite T in H. destruct m; cbn in H; fin.
  Qed.

  Lemma writes_g chunks new : concat chunks = new ->
    exists nd, run (midg fresh Dg [DCreate t n] [(0, FFile n)]) (writes 0 chunks)
               = Some (midg nd Dg [DCreate t n] [(0, FFile n)]) /\ i_vol nd = new.
  Proof.
    intros Hnew.
    destruct (writes_run chunks (midg fresh Dg [DCreate t n] [(0, FFile n)]) 0 n fresh eq_refl (aget_n fresh)) as [[-> H]|H].
    - exists fresh; split; [exact H|cbn in Hnew; subst new; reflexivity].
    - rewrite wrote_g in H. eexists; split; [exact H|cbn; exact Hnew].
  Qed.

  Lemma store_atomic_good : forall (new : bytes) (chunks : list bytes) (dirsync : bool)
                                   (m : crash_model) (c : option (option bytes)),
    concat chunks = new ->
    In c (crash_states m tgt st0 (store_ops_named t chunks dirsync)) ->
    c = Some cur \/ c = Some (Some new).
  Proof.
    intros new chunks dirsync m c Hnew Hc.
    apply in_crash_states in Hc; destruct Hc as [p [Hp Hc]].
    unfold store_ops_named, crash_prefixes in Hp.
    apply crash_prefixes_app in Hp; destruct Hp as [Hp|[q [Hq ->]]].
    { cbn in Hp; destruct Hp as [<-|[<-|[]]].
      - cbn [run] in Hc. apply in_map_iff in Hc. destruct Hc as [x [<- Hx]]. left. f_equal. exact (crash_init_g _ _ Hx).
      - cbn [run] in Hc. rewrite open_g in Hc. apply in_map_iff in Hc. destruct Hc as [x [<- Hx]].
        left. f_equal. eapply crash_A_g; [right; reflexivity|exact Hx]. }
    rewrite run_app in Hc. cbn [run] in Hc. rewrite open_g in Hc.
    apply crash_prefixes_app in Hq; destruct Hq as [Hq|[r [Hr ->]]].
    { destruct (writes_crash chunks (midg fresh Dg [DCreate t n] [(0, FFile n)]) 0 n fresh q eq_refl (aget_n fresh) Hq) as [H|[w H]];
        rewrite H in Hc; [|rewrite wrote_g in Hc];
        apply in_map_iff in Hc; destruct Hc as [x [<- Hx]]; left; f_equal; (eapply crash_A_g; [right; reflexivity|exact Hx]). }
    rewrite run_app in Hc.
    destruct (writes_g chunks new Hnew) as [nd [Hw Hv]]. rewrite Hw in Hc. clear Hw.
    assert (A : forall x nd' f, In x (map Some (crash m tgt (midg nd' Dg [DCreate t n] f))) -> x = Some cur \/ x = Some (Some new))
      by (intros x nd' f Hi; apply in_map_iff in Hi; destruct Hi as [y [<- Hy]]; left; f_equal; eapply crash_A_g; [right; reflexivity|exact Hy]).
    assert (B : forall x f, In x (map Some (crash m tgt (midg (clean_with new) Dg CRg f))) -> x = Some cur \/ x = Some (Some new))
      by (intros x f Hi; apply in_map_iff in Hi; destruct Hi as [y [<- Hy]]; destruct (crash_B_g _ _ _ _ Hy) as [->| ->]; auto).
    assert (C : forall x f, In x (map Some (crash m tgt (midg (clean_with new) D2g [] f))) -> x = Some cur \/ x = Some (Some new))
      by (intros x f Hi; apply in_map_iff in Hi; destruct Hi as [y [<- Hy]]; rewrite (crash_C_g _ _ _ _ Hy); auto).
    destruct dirsync; cbn in Hr;
      repeat (destruct Hr as [<-|Hr]; [cbn [run] in Hc;
                rewrite ?fsync_g, ?Hv in Hc; cbn [run] in Hc;
                change (step (midg (clean_with new) Dg [DCreate t n] [(0, FFile n)]) (OClose 0)) with (Some (midg (clean_with new) Dg [DCreate t n] [])) in Hc;
                cbn [run] in Hc; rewrite ?rename_g in Hc; cbn [run] in Hc;
                change (step (midg (clean_with new) Dg CRg []) (OOpenDir 1)) with (Some (midg (clean_with new) Dg CRg [(1, FDir)])) in Hc;
                cbn [run] in Hc; rewrite ?dirsync_g in Hc; cbn [run] in Hc;
                change (step (midg (clean_with new) D2g [] [(1, FDir)]) (OClose 1)) with (Some (midg (clean_with new) D2g [] [])) in Hc;
                cbn [run] in Hc; eauto |]); destruct Hr.
  Qed.

  (* a completed save with the directory sync ends in a good state that holds the new content *)
  Lemma store_run_good : forall (new : bytes) (chunks : list bytes),
    concat chunks = new ->
    exists st', run st0 (store_ops_named t chunks true) = Some st' /\ good st' (Some new).
  Proof.
    intros new chunks Hnew. unfold store_ops_named.
    rewrite run_app. cbn [run]. rewrite open_g. rewrite run_app.
    destruct (writes_g chunks new Hnew) as [nd [Hw Hv]]. rewrite Hw. clear Hw.
    cbn [run app]. rewrite fsync_g, Hv.
    change (step (midg (clean_with new) Dg [DCreate t n] [(0, FFile n)]) (OClose 0)) with (Some (midg (clean_with new) Dg [DCreate t n] [])).
    cbn [run]. rewrite rename_g.
    change (step (midg (clean_with new) Dg CRg []) (OOpenDir 1)) with (Some (midg (clean_with new) Dg CRg [(1, FDir)])).
    cbn [run]. rewrite dirsync_g.
    change (step (midg (clean_with new) D2g [] [(1, FDir)]) (OClose 1)) with (Some (midg (clean_with new) D2g [] [])).
    cbn [run]. eexists; split; [reflexivity|].
    constructor; cbn [midg pend fds ddir inodes next]; auto.
    - exists n. split; [apply tgt_new_g|apply aget_n].
    - intros i Hi. rewrite aget_aset_other by lia. apply (g_next _ _ G). unfold n in Hi; lia.
  Qed.
  (* the failure branches: no rename happened, the temporary file is removed *)
  Definition CUg := [DCreate t n; DUnlink t].
  Lemma unlink_g nd : step (midg nd Dg [DCreate t n] []) (OUnlink t) = Some (midg nd Dg CUg []).
  Proof.
    unfold step, vdir; cbn [midg pend ddir apply_dirops fold_left apply_dirop].
    rewrite aget_aset_same. reflexivity.
  Qed.
  Lemma view_unlinked_g pick nd :
    (forall b, pick (clean_with b) = [b]) ->
    content_in (aset n nd I0) (apply_dirops Dg CUg) tgt pick = [cur].
  Proof.
    intros Hp. unfold content_in, CUg. cbn [apply_dirops fold_left apply_dirop].
    rewrite aget_adel_other by congruence. rewrite aget_aset_other by congruence.
    destruct tgt_view as [[b [i [E [Hd Hi]]]]|[E T]]; rewrite E.
    - rewrite Hd.
      assert (i <> n) by (intros ->; rewrite n_fresh in Hi; discriminate).
      rewrite aget_aset_other by assumption. rewrite Hi. cbn. rewrite Hp. reflexivity.
    - rewrite T. reflexivity.
  Qed.
  Lemma crash_U_g m nd f c : In c (crash m tgt (midg nd Dg CUg f)) -> c = cur.
  Proof.
    intros H. destruct m; unfold crash, crash_gen, vdir in H; cbn [midg inodes ddir pend] in H.
    - rewrite (view_unlinked_g _ nd (fun b => eq_refl)) in H. fin.
    - apply in_flat_map in H. destruct H as [ps [Hps H]]. cbn in Hps. destruct Hps as [<-|[<-|[<-|[]]]].
      + rewrite (view_old_g _ _ [] (fun b => eq_refl) (or_introl eq_refl)) in H. fin.
      + rewrite (view_old_g _ _ [DCreate t n] (fun b => eq_refl) (or_intror eq_refl)) in H. fin.
      + fold CUg in H. rewrite (view_unlinked_g _ nd (fun b => eq_refl)) in H. fin.
  Qed.

  Lemma fail_atomic_good : forall (chunks : list bytes) (synced : bool) (m : crash_model) (c : option (option bytes)),
    In c (crash_states m tgt st0 (fail_ops t chunks synced)) -> c = Some cur.
  Proof.
    intros chunks synced m c Hc.
    apply in_crash_states in Hc; destruct Hc as [p [Hp Hc]].
    unfold fail_ops, crash_prefixes in Hp.
    apply crash_prefixes_app in Hp; destruct Hp as [Hp|[q [Hq ->]]].
    { cbn in Hp; destruct Hp as [<-|[<-|[]]].
      - cbn [run] in Hc. apply in_map_iff in Hc. destruct Hc as [x [<- Hx]]. f_equal. exact (crash_init_g _ _ Hx).
      - cbn [run] in Hc. rewrite open_g in Hc. apply in_map_iff in Hc. destruct Hc as [x [<- Hx]].
        f_equal. eapply crash_A_g; [right; reflexivity|exact Hx]. }
    rewrite run_app in Hc. cbn [run] in Hc. rewrite open_g in Hc.
    apply crash_prefixes_app in Hq; destruct Hq as [Hq|[r [Hr ->]]].
    { destruct (writes_crash chunks (midg fresh Dg [DCreate t n] [(0, FFile n)]) 0 n fresh q eq_refl (aget_n fresh) Hq) as [H|[w H]];
        rewrite H in Hc; [|rewrite wrote_g in Hc];
        apply in_map_iff in Hc; destruct Hc as [x [<- Hx]]; f_equal; (eapply crash_A_g; [right; reflexivity|exact Hx]). }
    rewrite run_app in Hc.
    destruct (writes_g chunks (concat chunks) eq_refl) as [nd [Hw Hv]]. rewrite Hw in Hc. clear Hw Hv.
    assert (A : forall x nd' f, In x (map Some (crash m tgt (midg nd' Dg [DCreate t n] f))) -> x = Some cur)
      by (intros x nd' f Hi; apply in_map_iff in Hi; destruct Hi as [y [<- Hy]]; f_equal; eapply crash_A_g; [right; reflexivity|exact Hy]).
    assert (U : forall x nd' f, In x (map Some (crash m tgt (midg nd' Dg CUg f))) -> x = Some cur)
      by (intros x nd' f Hi; apply in_map_iff in Hi; destruct Hi as [y [<- Hy]]; f_equal; eapply crash_U_g; exact Hy).
    destruct synced; cbn in Hr;
      repeat (destruct Hr as [<-|Hr]; [cbn [run] in Hc;
                rewrite ?fsync_g in Hc; cbn [run] in Hc;
                repeat match type of Hc with context [step (midg ?x Dg [DCreate t n] [(0, FFile n)]) (OClose 0)] =>
                  change (step (midg x Dg [DCreate t n] [(0, FFile n)]) (OClose 0)) with (Some (midg x Dg [DCreate t n] [])) in Hc end;
                cbn [run] in Hc; rewrite ?unlink_g in Hc; cbn [run] in Hc; eauto |]); destruct Hr.
  Qed.
End OneSave.

(* a chain of completed saves (each with the directory sync, each with a temporary name that
   does not exist at that time), then one more save interrupted anywhere *)
Fixpoint run_saves (st : fs) (saves : list (name * list bytes)) : option fs :=
  match saves with
  | [] => Some st
  | (t, ch) :: rest => match run st (store_ops_named t ch true) with Some st' => run_saves st' rest | None => None end
  end.
Fixpoint fresh_names (st : fs) (saves : list (name * list bytes)) : Prop :=
  match saves with
  | [] => True
  | (t, ch) :: rest => aget t (ddir st) = None /\ t <> tgt /\
                       match run st (store_ops_named t ch true) with Some st' => fresh_names st' rest | None => True end
  end.
Definition last_content (cur : option bytes) (saves : list (name * list bytes)) : option bytes :=
  fold_left (fun _ s => Some (concat (snd s))) saves cur.

Lemma chain_good : forall saves st cur,
  good st cur -> fresh_names st saves ->
  exists stn, run_saves st saves = Some stn /\ good stn (last_content cur saves).
Proof.
  induction saves as [|[t ch] rest IH]; intros st cur G F.
  - exists st; auto.
  - cbn [fresh_names] in F. destruct F as [Ht [Hne F]].
    destruct (store_run_good st cur t G Ht Hne (concat ch) ch eq_refl) as [st' [R G']].
    cbn [run_saves]. rewrite R in *. destruct (IH st' (Some (concat ch)) G' F) as [stn [Rn Gn]].
    exists stn; split; [exact Rn|exact Gn].
Qed.

Lemma store_atomic_chain : forall saves st cur stn t ch dirsync m c,
  good st cur -> fresh_names st saves -> run_saves st saves = Some stn ->
  aget t (ddir stn) = None -> t <> tgt ->
  In c (crash_states m tgt stn (store_ops_named t ch dirsync)) ->
  c = Some (last_content cur saves) \/ c = Some (Some (concat ch)).
Proof.
  intros saves st cur stn t ch dirsync m c G F R Ht Hne Hc.
  destruct (chain_good saves st cur G F) as [stn' [R' Gn]]. rewrite R in R'. inversion R'; subst stn'.
  exact (store_atomic_good stn _ t Gn Ht Hne (concat ch) ch dirsync m c eq_refl Hc).
Qed.

Lemma good_init_fs old : good (init_fs old) old.
Proof.
  destruct old as [b|]; constructor; cbn; auto.
  - exists 0; split; reflexivity.
  - intros i Hi. destruct i; [lia|reflexivity].
Qed.

(* Without the directory sync the completed save is not durable, and a later interrupted save
   can surface the session BEFORE the previous one under power loss: the chain theorem needs
   dirsync = true for the completed saves. *)
Lemma chain_without_dirsync_surfaces_older :
  exists st1, run (init_fs (Some [9%Z])) (store_ops [[1%Z]] false) = Some st1 /\
              In (Some (Some [9%Z])) (crash_states Power tgt st1 (store_ops_named 1 [[2%Z]] false)).
Proof. eexists. split; [vm_compute; reflexivity|vm_compute; auto 30]. Qed.

Lemma store_durable : forall (old : option bytes) (new : bytes) (chunks : list bytes),
  concat chunks = new ->
  exists st, run (init_fs old) (store_ops chunks true) = Some st /\
             crash Process tgt st = [Some new] /\ crash Power tgt st = [Some new].
Proof.
  intros old new chunks Hnew. destruct (store_durable_left old [] new chunks Hnew) as [st H].
  exists st. destruct old; exact H.
Qed.

(* the directory without leftovers: the statement of the first round *)
Lemma store_atomic : forall (old : option bytes) (new : bytes) (chunks : list bytes) (dirsync : bool)
                            (m : crash_model) (c : option (option bytes)),
  concat chunks = new ->
  In c (crash_states m tgt (init_fs old) (store_ops chunks dirsync)) ->
  c = Some old \/ c = Some (Some new).
Proof.
  intros old new chunks dirsync m c Hnew Hc.
  apply (store_atomic_left old [] new chunks dirsync m c Hnew).
  destruct old; exact Hc.
Qed.

(* consequence for the next start: Loader.Load sees the old or the new session *)
Lemma store_atomic_load {S} (parse : bytes -> option S) :
  forall (old : option bytes) (new : bytes) (chunks : list bytes) (dirsync : bool) (m : crash_model) c,
  concat chunks = new ->
  In c (crash_states m tgt (init_fs old) (store_ops chunks dirsync)) ->
  exists c', c = Some c' /\ (load parse c' = load parse old \/ load parse c' = load parse (Some new)).
Proof.
  intros old new chunks dirsync m c Hnew Hc.
  destruct (store_atomic old new chunks dirsync m c Hnew Hc) as [->| ->]; eexists; split; eauto.
Qed.

(* ---- the sequences that are NOT atomic ---- *)
Definition not_atomic (ops : list bytes -> list op) : Prop :=
  exists old new chunks m c,
    concat chunks = new /\ In c (crash_states m tgt (init_fs (Some old)) (ops chunks)) /\
    c <> Some (Some old) /\ c <> Some (Some new).

Lemma writefile_empty : (* process crash between open(O_TRUNC) and write: empty file *)
  In (Some (Some [])) (crash_states Process tgt (init_fs (Some [1;2;3]%Z)) (writefile_ops [[4;5;6;7]%Z])).
Proof. vm_compute. auto 10. Qed.
Lemma writefile_torn : (* process crash inside the write: torn file *)
  In (Some (Some [4;5]%Z)) (crash_states Process tgt (init_fs (Some [1;2;3]%Z)) (writefile_ops [[4;5;6;7]%Z])).
Proof. vm_compute. auto 10. Qed.
Lemma writefile_not_atomic : not_atomic writefile_ops.
Proof.
  exists [1;2;3]%Z, [4;5;6;7]%Z, [[4;5;6;7]%Z], Process, (Some (Some [4;5]%Z)).
  split; [reflexivity|split; [exact writefile_torn|split; discriminate]].
Qed.
Lemma nofsync_torn : (* power loss after the rename reached the disk but the data did not *)
  In (Some (Some [4;5]%Z)) (crash_states Power tgt (init_fs (Some [1;2;3]%Z)) (store_ops_nofsync [[4;5;6;7]%Z])).
Proof. vm_compute. auto 40. Qed.
Lemma nofsync_not_atomic : not_atomic store_ops_nofsync.
Proof.
  exists [1;2;3]%Z, [4;5;6;7]%Z, [[4;5;6;7]%Z], Power, (Some (Some [4;5]%Z)).
  split; [reflexivity|split; [exact nofsync_torn|split; discriminate]].
Qed.
Lemma inplace_torn : (* same size, overwritten in place: a crash inside the write mixes new and old *)
  In (Some (Some [4;5;3]%Z)) (crash_states Process tgt (init_fs (Some [1;2;3]%Z)) (inplace_ops [4;5;6]%Z)).
Proof. vm_compute. auto 10. Qed.
Lemma inplace_not_atomic : not_atomic (fun chunks => inplace_ops (concat chunks)).
Proof.
  exists [1;2;3]%Z, [4;5;6]%Z, [[4;5;6]%Z], Process, (Some (Some [4;5;3]%Z)).
  split; [reflexivity|split; [exact inplace_torn|split; discriminate]].
Qed.
(* ... while a process crash alone does not need the fsync *)
Lemma nofsync_process_ok :
  forall c, In c (crash_states Process tgt (init_fs (Some [1;2;3]%Z)) (store_ops_nofsync [[4;5;6;7]%Z])) ->
            c = Some (Some [1;2;3]%Z) \/ c = Some (Some [4;5;6;7]%Z).
Proof. vm_compute. intuition. Qed.

(* ---- the executable check explores a subset of the states of the theorem ---- *)
Lemma firstn_in_prefixes {A} p (v : list A) : In (firstn p v) (list_prefixes v).
Proof.
  revert p; induction v as [|x t IH]; intros [|p]; cbn; auto.
  right; apply in_map; apply IH.
Qed.
Lemma content_in_mono inos d n (p1 p2 : inode -> list bytes) c :
  (forall nd, incl (p1 nd) (p2 nd)) -> In c (content_in inos d n p1) -> In c (content_in inos d n p2).
Proof.
  intros Hp; unfold content_in. destruct (aget n d); auto. destruct (aget i inos); auto.
  intros H; apply in_map_iff in H; destruct H as [b [<- Hb]]; apply in_map; apply Hp; exact Hb.
Qed.
Lemma crash_gen_mono pre1 pre2 m n st c :
  (forall v, incl (pre1 v) (pre2 v)) -> In c (crash_gen pre1 m n st) -> In c (crash_gen pre2 m n st).
Proof.
  intros Hp; destruct m; cbn; auto.
  intros H; apply in_flat_map in H; destruct H as [ps [Hps H]]; apply in_flat_map; exists ps; split; auto.
  eapply content_in_mono; [|exact H].
  intros nd; unfold power_pick; destruct (i_dirty nd); [|apply incl_refl].
  intros x [<-|Hx]; [left; reflexivity|right; apply Hp; exact Hx].
Qed.
Lemma crash_prefixes_gen_mono l1 l2 os p :
  (forall d, incl (l1 d) (l2 d)) -> In p (crash_prefixes_gen l1 os) -> In p (crash_prefixes_gen l2 os).
Proof.
  intros Hl; revert p; induction os as [|o t IH]; intros p H; cbn in *; auto.
  destruct H as [H|H]; auto. right. apply in_app_or in H; apply in_or_app. destruct H as [H|H].
  - left. destruct o; cbn in *; auto; (apply in_map_iff in H; destruct H as [k [<- Hk]]; apply in_map_iff; exists k; split; [reflexivity|apply Hl; exact Hk]).
  - right. apply in_map_iff in H; destruct H as [q [<- Hq]]; apply in_map; auto.
Qed.

Lemma crash_states_gen_mono l1 l2 pre1 pre2 m n st0 os c :
  (forall d, incl (l1 d) (l2 d)) -> (forall v, incl (pre1 v) (pre2 v)) ->
  In c (crash_states_gen l1 pre1 m n st0 os) -> In c (crash_states_gen l2 pre2 m n st0 os).
Proof.
  intros Hl Hp H; unfold crash_states_gen in *.
  apply in_flat_map in H; destruct H as [p [Hpre H]]; apply in_flat_map; exists p; split.
  - eapply crash_prefixes_gen_mono; eauto.
  - destruct (run st0 p); auto.
    apply in_map_iff in H; destruct H as [x [<- Hx]]; apply in_map; eapply crash_gen_mono; eauto.
Qed.

(* the states explored by the executable check (Run/Check_C31.v) are states of the theorem *)
Lemma sel_lens_incl d : incl (sel_lens d) (all_lens d).
Proof.
  intros p H; unfold sel_lens in H; apply filter_In in H; destruct H as [_ H].
  apply Nat.ltb_lt in H; unfold all_lens; apply in_seq; lia.
Qed.
Lemma sel_prefixes_incl v : incl (sel_prefixes v) (prefixes v).
Proof.
  intros b H; unfold sel_prefixes in H; apply in_map_iff in H; destruct H as [p [<- _]].
  apply firstn_in_prefixes.
Qed.
Lemma checked_states_incl m n st0 os c :
  In c (checked_states m n st0 os) -> In c (crash_states m n st0 os).
Proof. apply crash_states_gen_mono; [exact sel_lens_incl|exact sel_prefixes_incl]. Qed.
