(* Proofs for C31: crash atomicity of the temp-file + fsync + rename sequence. *)
From Coq Require Import List ZArith Bool Arith Lia.
From TD Require Import Lib.CrashFS Model.SessionFile Run.Check_C31.
Import ListNotations.

(* ---- association lists ---- *)
Lemma aset_aset {A} k (a b : A) l : aset k b (aset k a l) = aset k b l.
Proof.
  induction l as [|[k' v'] t IH]; cbn.
  - rewrite Nat.eqb_refl; reflexivity.
  - destruct (Nat.eqb k k') eqn:E; cbn; rewrite ?Nat.eqb_refl, ?E; [reflexivity|rewrite IH; reflexivity].
Qed.
Lemma aget_aset_same {A} k (a : A) l : aget k (aset k a l) = Some a.
Proof.
  induction l as [|[k' v'] t IH]; cbn.
  - rewrite Nat.eqb_refl; reflexivity.
  - destruct (Nat.eqb k k') eqn:E; cbn; rewrite ?Nat.eqb_refl, ?E; auto.
Qed.

(* ---- runs and crash prefixes of concatenations ---- *)
Lemma run_app st a b :
  run st (a ++ b) = match run st a with Some st' => run st' b | None => None end.
Proof.
  revert st; induction a as [|o a IH]; intros st; cbn; [reflexivity|].
  destruct (step st o); [apply IH|reflexivity].
Qed.

Lemma crash_prefixes_app lens a b p :
  In p (crash_prefixes_gen lens (a ++ b)) ->
  In p (crash_prefixes_gen lens a) \/ exists q, In q (crash_prefixes_gen lens b) /\ p = a ++ q.
Proof.
  revert p; induction a as [|o a IH]; intros p H.
  - right; exists p; auto.
  - cbn [app crash_prefixes_gen] in H. destruct H as [H|H].
    + left; cbn; auto.
    + apply in_app_or in H; destruct H as [H|H].
      * left; cbn; right; apply in_or_app; auto.
      * apply in_map_iff in H; destruct H as [p' [<- Hp']].
        destruct (IH _ Hp') as [H1|[q [Hq ->]]].
        -- left; cbn; right; apply in_or_app; right; apply in_map; exact H1.
        -- right; exists q; auto.
Qed.

(* ---- the write phase ---- *)
Definition wrote (st : fs) (i : ino) (nd : inode) (w : bytes) : fs :=
  with_inodes st (aset i {| i_dur := i_dur nd; i_vol := i_vol nd ++ w; i_dirty := true |} (inodes st)).

Lemma step_write st fd i nd d :
  aget fd (fds st) = Some (FFile i) -> aget i (inodes st) = Some nd ->
  step st (OWrite fd d) = Some (wrote st i nd d).
Proof. intros H1 H2; cbn; rewrite H1, H2; reflexivity. Qed.

Lemma wrote_wrote st i nd a b :
  wrote (wrote st i nd a) i {| i_dur := i_dur nd; i_vol := i_vol nd ++ a; i_dirty := true |} b
  = wrote st i nd (a ++ b).
Proof. unfold wrote, with_inodes; cbn. rewrite aset_aset, app_assoc; reflexivity. Qed.

(* every crash point inside the write phase: the file behind [fd] holds its previous
   content plus some bytes, nothing else changed *)
Lemma writes_crash cs : forall st fd i nd q,
  aget fd (fds st) = Some (FFile i) -> aget i (inodes st) = Some nd ->
  In q (crash_prefixes (writes fd cs)) ->
  run st q = Some st \/ exists w, run st q = Some (wrote st i nd w).
Proof.
  induction cs as [|c cs IH]; intros st fd i nd q Hfd Hi Hq.
  - cbn in Hq; destruct Hq as [<-|[]]; left; reflexivity.
  - cbn [writes map crash_prefixes crash_prefixes_gen] in Hq. destruct Hq as [<-|Hq]; [left; reflexivity|].
    apply in_app_or in Hq; destruct Hq as [Hq|Hq].
    + cbn in Hq; apply in_map_iff in Hq; destruct Hq as [p [<- _]].
      right; exists (firstn p c). cbn [run]. rewrite (step_write _ _ _ _ _ Hfd Hi); reflexivity.
    + apply in_map_iff in Hq; destruct Hq as [q' [<- Hq']]. right.
      cbn [run]. rewrite (step_write _ _ _ _ _ Hfd Hi).
      assert (Hi' : aget i (inodes (wrote st i nd c)) = Some {| i_dur := i_dur nd; i_vol := i_vol nd ++ c; i_dirty := true |})
        by (cbn; apply aget_aset_same).
      destruct (IH (wrote st i nd c) fd i _ q' Hfd Hi' Hq') as [H|[w H]].
      * exists c; exact H.
      * exists (c ++ w). rewrite H, wrote_wrote; reflexivity.
Qed.

Lemma writes_run cs : forall st fd i nd,
  aget fd (fds st) = Some (FFile i) -> aget i (inodes st) = Some nd ->
  (cs = [] /\ run st (writes fd cs) = Some st) \/ run st (writes fd cs) = Some (wrote st i nd (concat cs)).
Proof.
  induction cs as [|c cs IH]; intros st fd i nd Hfd Hi.
  - left; auto.
  - right. cbn [writes map run]. rewrite (step_write _ _ _ _ _ Hfd Hi).
    assert (Hi' : aget i (inodes (wrote st i nd c)) = Some {| i_dur := i_dur nd; i_vol := i_vol nd ++ c; i_dirty := true |})
      by (cbn; apply aget_aset_same).
    destruct (IH (wrote st i nd c) fd i _ Hfd Hi') as [[-> H]|H].
    + cbn [concat]. rewrite app_nil_r. exact H.
    + fold (writes fd cs). rewrite H, wrote_wrote; reflexivity.
Qed.

(* ---- the theorem ---- *)
Ltac fin := repeat match goal with
                   | H : In _ (_ :: _) |- _ => destruct H
                   | H : In _ [] |- _ => destruct H
                   | H : _ \/ _ |- _ => destruct H
                   | H : False |- _ => destruct H
                   | H : _ = ?c |- _ => is_var c; subst c
                   end; auto.

Lemma in_crash_states m n st0 os c :
  In c (crash_states m n st0 os) ->
  exists p, In p (crash_prefixes os) /\
            In c (match run st0 p with Some st => map Some (crash m n st) | None => [None] end).
Proof. unfold crash_states, crash_states_gen; intros H; apply in_flat_map in H; exact H. Qed.

Lemma store_atomic : forall (old : option bytes) (new : bytes) (chunks : list bytes) (dirsync : bool)
                            (m : crash_model) (c : option (option bytes)),
  concat chunks = new ->
  In c (crash_states m tgt (init_fs old) (store_ops chunks dirsync)) ->
  c = Some old \/ c = Some (Some new).
Proof.
  intros old new chunks dirsync m c Hnew Hc.
  apply in_crash_states in Hc; destruct Hc as [p [Hp Hc]].
  unfold store_ops, crash_prefixes in Hp.
  apply crash_prefixes_app in Hp; destruct Hp as [Hp|[q [Hq ->]]].
  { (* before / right after the open of the temporary file *)
    cbn in Hp; destruct Hp as [<-|[<-|[]]]; destruct old, m; cbn in Hc; fin. }
  apply crash_prefixes_app in Hq; destruct Hq as [Hq|[r [Hr ->]]].
  { (* inside the write phase *)
    destruct old as [o|].
    - cbn [app run step init_fs] in Hc. cbn in Hc.
      match type of Hc with context [run ?st q] =>
        destruct (writes_crash chunks st 0 1 {| i_dur := []; i_vol := []; i_dirty := false |} q eq_refl eq_refl Hq) as [H|[w H]];
        rewrite H in Hc end; destruct m; cbn in Hc; fin.
    - cbn [app run step init_fs] in Hc. cbn in Hc.
      match type of Hc with context [run ?st q] =>
        destruct (writes_crash chunks st 0 1 {| i_dur := []; i_vol := []; i_dirty := false |} q eq_refl eq_refl Hq) as [H|[w H]];
        rewrite H in Hc end; destruct m; cbn in Hc; fin. }
  (* after the write phase *)
  rewrite run_app in Hc. cbn [run step] in Hc.
  destruct old as [o|].
  - cbn in Hc.
    match type of Hc with context [run ?st (writes 0 chunks ++ r)] =>
      rewrite (run_app st) in Hc;
      destruct (writes_run chunks st 0 1 {| i_dur := []; i_vol := []; i_dirty := false |} eq_refl eq_refl) as [[-> H]|H];
      rewrite H in Hc end.
    + cbn in Hnew; subst new. destruct dirsync; cbn in Hr; fin; destruct m; cbn in Hc; fin.
    + rewrite Hnew in Hc. destruct dirsync; cbn in Hr; fin; destruct m; cbn in Hc; fin.
  - cbn in Hc.
    match type of Hc with context [run ?st (writes 0 chunks ++ r)] =>
      rewrite (run_app st) in Hc;
      destruct (writes_run chunks st 0 1 {| i_dur := []; i_vol := []; i_dirty := false |} eq_refl eq_refl) as [[-> H]|H];
      rewrite H in Hc end.
    + cbn in Hnew; subst new. destruct dirsync; cbn in Hr; fin; destruct m; cbn in Hc; fin.
    + rewrite Hnew in Hc. destruct dirsync; cbn in Hr; fin; destruct m; cbn in Hc; fin.
Qed.

(* the complete sequence (directory sync included) leaves the new content, durably *)
Lemma store_durable : forall (old : option bytes) (new : bytes) (chunks : list bytes),
  concat chunks = new ->
  exists st, run (init_fs old) (store_ops chunks true) = Some st /\
             crash Process tgt st = [Some new] /\ crash Power tgt st = [Some new].
Proof.
  intros old new chunks Hnew. unfold store_ops.
  rewrite run_app. cbn [run step].
  destruct old as [o|]; cbn.
  - match goal with |- context [run ?st (writes 0 chunks ++ ?r)] =>
      rewrite (run_app st);
      destruct (writes_run chunks st 0 1 {| i_dur := []; i_vol := []; i_dirty := false |} eq_refl eq_refl) as [[-> H]|H];
      rewrite H end.
    + cbn in Hnew; subst new. cbn. eexists; split; [reflexivity|split; reflexivity].
    + rewrite Hnew. cbn. eexists; split; [reflexivity|split; reflexivity].
  - match goal with |- context [run ?st (writes 0 chunks ++ ?r)] =>
      rewrite (run_app st);
      destruct (writes_run chunks st 0 1 {| i_dur := []; i_vol := []; i_dirty := false |} eq_refl eq_refl) as [[-> H]|H];
      rewrite H end.
    + cbn in Hnew; subst new. cbn. eexists; split; [reflexivity|split; reflexivity].
    + rewrite Hnew. cbn. eexists; split; [reflexivity|split; reflexivity].
Qed.

(* consequence for the next start: Loader.Load sees the old or the new session *)
Lemma store_atomic_load {S} (parse : bytes -> option S) :
  forall (old : option bytes) (new : bytes) (chunks : list bytes) (dirsync : bool) (m : crash_model) c,
  concat chunks = new ->
  In c (crash_states m tgt (init_fs old) (store_ops chunks dirsync)) ->
  exists c', c = Some c' /\ (load parse c' = load parse old \/ load parse c' = load parse (Some new)).
Proof.
  intros old new chunks dirsync m c Hnew Hc.
  destruct (store_atomic old new chunks dirsync m c Hnew Hc) as [->| ->]; eexists; split; eauto.
Qed.

(* ---- the sequences that are NOT atomic ---- *)
Definition not_atomic (ops : list bytes -> list op) : Prop :=
  exists old new chunks m c,
    concat chunks = new /\ In c (crash_states m tgt (init_fs (Some old)) (ops chunks)) /\
    c <> Some (Some old) /\ c <> Some (Some new).

Lemma writefile_empty : (* process crash between open(O_TRUNC) and write: empty file *)
  In (Some (Some [])) (crash_states Process tgt (init_fs (Some [1;2;3]%Z)) (writefile_ops [[4;5;6;7]%Z])).
Proof. vm_compute. auto 10. Qed.
Lemma writefile_torn : (* process crash inside the write: torn file *)
  In (Some (Some [4;5]%Z)) (crash_states Process tgt (init_fs (Some [1;2;3]%Z)) (writefile_ops [[4;5;6;7]%Z])).
Proof. vm_compute. auto 10. Qed.
Lemma writefile_not_atomic : not_atomic writefile_ops.
Proof.
  exists [1;2;3]%Z, [4;5;6;7]%Z, [[4;5;6;7]%Z], Process, (Some (Some [4;5]%Z)).
  split; [reflexivity|split; [exact writefile_torn|split; discriminate]].
Qed.
Lemma nofsync_torn : (* power loss after the rename reached the disk but the data did not *)
  In (Some (Some [4;5]%Z)) (crash_states Power tgt (init_fs (Some [1;2;3]%Z)) (store_ops_nofsync [[4;5;6;7]%Z])).
Proof. vm_compute. auto 40. Qed.
Lemma nofsync_not_atomic : not_atomic store_ops_nofsync.
Proof.
  exists [1;2;3]%Z, [4;5;6;7]%Z, [[4;5;6;7]%Z], Power, (Some (Some [4;5]%Z)).
  split; [reflexivity|split; [exact nofsync_torn|split; discriminate]].
Qed.
(* ... while a process crash alone does not need the fsync *)
Lemma nofsync_process_ok :
  forall c, In c (crash_states Process tgt (init_fs (Some [1;2;3]%Z)) (store_ops_nofsync [[4;5;6;7]%Z])) ->
            c = Some (Some [1;2;3]%Z) \/ c = Some (Some [4;5;6;7]%Z).
Proof. vm_compute. intuition. Qed.

(* ---- the executable check explores a subset of the states of the theorem ---- *)
Lemma firstn_in_prefixes {A} p (v : list A) : In (firstn p v) (list_prefixes v).
Proof.
  revert p; induction v as [|x t IH]; intros [|p]; cbn; auto.
  right; apply in_map; apply IH.
Qed.
Lemma content_in_mono inos d n (p1 p2 : inode -> list bytes) c :
  (forall nd, incl (p1 nd) (p2 nd)) -> In c (content_in inos d n p1) -> In c (content_in inos d n p2).
Proof.
  intros Hp; unfold content_in. destruct (aget n d); auto. destruct (aget i inos); auto.
  intros H; apply in_map_iff in H; destruct H as [b [<- Hb]]; apply in_map; apply Hp; exact Hb.
Qed.
Lemma crash_gen_mono pre1 pre2 m n st c :
  (forall v, incl (pre1 v) (pre2 v)) -> In c (crash_gen pre1 m n st) -> In c (crash_gen pre2 m n st).
Proof.
  intros Hp; destruct m; cbn; auto.
  intros H; apply in_flat_map in H; destruct H as [ps [Hps H]]; apply in_flat_map; exists ps; split; auto.
  eapply content_in_mono; [|exact H].
  intros nd; unfold power_pick; destruct (i_dirty nd); [|apply incl_refl].
  intros x [<-|Hx]; [left; reflexivity|right; apply Hp; exact Hx].
Qed.
Lemma crash_prefixes_gen_mono l1 l2 os p :
  (forall d, incl (l1 d) (l2 d)) -> In p (crash_prefixes_gen l1 os) -> In p (crash_prefixes_gen l2 os).
Proof.
  intros Hl; revert p; induction os as [|o t IH]; intros p H; cbn in *; auto.
  destruct H as [H|H]; auto. right. apply in_app_or in H; apply in_or_app. destruct H as [H|H].
  - left. destruct o; cbn in *; auto. apply in_map_iff in H; destruct H as [k [<- Hk]]; apply in_map_iff; exists k; split; [reflexivity|apply Hl; exact Hk].
  - right. apply in_map_iff in H; destruct H as [q [<- Hq]]; apply in_map; auto.
Qed.

Lemma crash_states_gen_mono l1 l2 pre1 pre2 m n st0 os c :
  (forall d, incl (l1 d) (l2 d)) -> (forall v, incl (pre1 v) (pre2 v)) ->
  In c (crash_states_gen l1 pre1 m n st0 os) -> In c (crash_states_gen l2 pre2 m n st0 os).
Proof.
  intros Hl Hp H; unfold crash_states_gen in *.
  apply in_flat_map in H; destruct H as [p [Hpre H]]; apply in_flat_map; exists p; split.
  - eapply crash_prefixes_gen_mono; eauto.
  - destruct (run st0 p); auto.
    apply in_map_iff in H; destruct H as [x [<- Hx]]; apply in_map; eapply crash_gen_mono; eauto.
Qed.

(* the states explored by the executable check (Run/Check_C31.v) are states of the theorem *)
Lemma sel_lens_incl d : incl (sel_lens d) (all_lens d).
Proof.
  intros p H; unfold sel_lens in H; apply filter_In in H; destruct H as [_ H].
  apply Nat.ltb_lt in H; unfold all_lens; apply in_seq; lia.
Qed.
Lemma sel_prefixes_incl v : incl (sel_prefixes v) (prefixes v).
Proof.
  intros b H; unfold sel_prefixes in H; apply in_map_iff in H; destruct H as [p [<- _]].
  apply firstn_in_prefixes.
Qed.
Lemma checked_states_incl m n st0 os c :
  In c (checked_states m n st0 os) -> In c (crash_states m n st0 os).
Proof. apply crash_states_gen_mono; [exact sel_lens_incl|exact sel_prefixes_incl]. Qed.
