(* Proofs about Model/MsgIdBuf.v: the replay window refines its specification for all id
   histories, and the acceptance pipeline accepts exactly what the property states (C07). *)
From Coq Require Import ZArith List Bool Lia Sorted Permutation.
From TD Require Import Gen.MsgIdGen Gen.RecvConsts Model.MsgId Model.MsgIdBuf Proof.MsgId.
Import ListNotations.
Open Scope Z_scope.

(* ---------- the scan loop ---------- *)
Lemma scan_none buf : forall i id mi mv, scan buf i id mi mv = None <-> In id buf.
Proof.
  induction buf as [|x t IH]; intros i id mi mv; simpl.
  - split; [discriminate | tauto].
  - destruct (Z.eqb_spec x id) as [E|E].
    + split; auto.
    + destruct (x <? mv); rewrite IH; (split; intros H; [right; exact H | destruct H as [H|H]; [congruence | exact H]]).
Qed.

Lemma scan_some buf : forall i id mi mv mi' mv',
  scan buf i id mi mv = Some (mi', mv') ->
  (mi' = mi /\ mv' = mv /\ Forall (fun x => mv <= x) buf) \/
  (exists j, mi' = (i + j)%nat /\ (j < length buf)%nat /\ nth j buf 0 = mv' /\ mv' < mv /\
             Forall (fun x => mv' <= x) buf).
Proof.
  induction buf as [|x t IH]; intros i id mi mv mi' mv' H; simpl in H.
  - inversion H; subst. left. repeat split. constructor.
  - destruct (x =? id); [discriminate|].
    destruct (Z.ltb_spec x mv) as [L|L].
    + apply IH in H. destruct H as [(A & B & C) | (j & A & B & C & D & E)].
      * subst. right. exists 0%nat. simpl. repeat split; try lia. constructor; [lia|exact C].
      * right. exists (S j). simpl. repeat split; try lia; try assumption. constructor; [lia|exact E].
    + apply IH in H. destruct H as [(A & B & C) | (j & A & B & C & D & E)].
      * left. repeat split; try assumption. constructor; [subst; lia|exact C].
      * right. exists (S j). simpl. repeat split; try lia; try assumption. constructor; [lia|exact E].
Qed.

Lemma upd_split l : forall j v, (j < length l)%nat ->
  exists l1 l2, l = l1 ++ nth j l 0 :: l2 /\ upd l j v = l1 ++ v :: l2.
Proof.
  induction l as [|x t IH]; intros j v Hj; simpl in Hj; [lia|].
  destruct j as [|j]; simpl.
  - exists [], t. split; reflexivity.
  - destruct (IH j v ltac:(lia)) as (l1 & l2 & A & B). exists (x :: l1), l2. simpl. split; congruence.
Qed.

(* abstract behaviour of Consume on a non-empty buffer whose entries and the new id are
   below the initial value of the minimum search *)
Lemma consume_abs buf id :
  buf <> [] -> Forall (fun x => x < c_minID_init) buf ->
  (In id buf -> consume buf id = (false, buf)) /\
  (~ In id buf -> exists m rest, Permutation buf (m :: rest) /\ Forall (fun x => m <= x) buf /\
      ((id < m /\ consume buf id = (false, buf)) \/
       (m <= id /\ exists buf', consume buf id = (true, buf') /\ Permutation buf' (id :: rest)))).
Proof.
  intros Hne Hlt. unfold consume. split.
  - intros Hin. apply (scan_none buf 0 id (Z.to_nat c_minIDx_init) c_minID_init) in Hin. rewrite Hin. reflexivity.
  - intros Hnin.
    destruct (scan buf 0 id (Z.to_nat c_minIDx_init) c_minID_init) as [[mi mv]|] eqn:E.
    2:{ apply scan_none in E. contradiction. }
    apply scan_some in E. destruct E as [(A & B & C) | (j & A & B & C & D & F)].
    + (* impossible: some entry is below the initial minimum *)
      destruct buf as [|x t]; [congruence|]. inversion C; subst. inversion Hlt; subst. lia.
    + simpl in A. subst mi.
      destruct (upd_split buf j id B) as (l1 & l2 & S1 & S2). rewrite C in S1.
      exists mv, (l1 ++ l2). split; [rewrite S1 at 1; symmetry; apply Permutation_middle|].
      split; [exact F|].
      destruct (Z.ltb_spec id mv) as [L|L].
      * left. split; [lia|reflexivity].
      * right. split; [lia|]. exists (upd buf j id). split; [reflexivity|].
        rewrite S2. symmetry. apply Permutation_middle.
Qed.

(* ---------- sorted insertion ---------- *)
Lemma insert_perm x l : Permutation (insert x l) (x :: l).
Proof.
  induction l as [|y t IH]; simpl; [reflexivity|].
  destruct (x <=? y); [reflexivity|].
  rewrite IH. apply perm_swap.
Qed.

Lemma insert_sorted x l : StronglySorted Z.le l -> StronglySorted Z.le (insert x l).
Proof.
  induction l as [|y t IH]; intros Hs; simpl.
  - constructor; constructor.
  - inversion Hs as [|? ? Ht Hy]; subst. destruct (Z.leb_spec x y) as [L|L].
    + constructor; [exact Hs|]. constructor; [exact L|]. eapply Forall_impl; [|exact Hy]. simpl; intros; lia.
    + constructor; [apply IH; exact Ht|].
      eapply Permutation_Forall; [symmetry; apply insert_perm|]. constructor; [lia|exact Hy].
Qed.

Lemma insert_length x l : length (insert x l) = S (length l).
Proof. induction l as [|y t IH]; simpl; [reflexivity|]. destruct (x <=? y); simpl; congruence. Qed.

(* ---------- refinement relation ---------- *)
Definition R (N : nat) (buf S : list Z) : Prop :=
  (length S <= N)%nat /\
  Permutation buf (S ++ repeat 0 (N - length S)) /\
  StronglySorted Z.le S /\
  Forall (fun x => 0 < x < c_minID_init) S.

Lemma R_init N : R N (buf_init N) [].
Proof.
  unfold R, buf_init. simpl. rewrite Nat.sub_0_r. split; [lia|]. split; [reflexivity|]. split; constructor.
Qed.

Lemma existsb_eqb_In id S : existsb (Z.eqb id) S = true <-> In id S.
Proof.
  rewrite existsb_exists. split.
  - intros (x & Hx & E). apply Z.eqb_eq in E. subst. exact Hx.
  - intros H. exists id. split; [exact H|apply Z.eqb_refl].
Qed.

Lemma forallb_ltb id S : forallb (Z.ltb id) S = true <-> Forall (fun x => id < x) S.
Proof.
  rewrite forallb_forall, Forall_forall. split; intros H x Hx; specialize (H x Hx); lia.
Qed.

Lemma min_unique (l : list Z) a b :
  In a l -> In b l -> Forall (fun x => a <= x) l -> Forall (fun x => b <= x) l -> a = b.
Proof.
  intros Ia Ib Fa Fb. rewrite Forall_forall in Fa, Fb. specialize (Fa b Ib). specialize (Fb a Ia). lia.
Qed.

Lemma consume_refines N buf S id :
  (0 < N)%nat -> 0 < id < c_minID_init -> R N buf S ->
  let '(b, buf') := consume buf id in
  let '(b', S') := spec_consume N S id in
  b = b' /\ R N buf' S'.
Proof.
  intros HN Hid (HL & HP & HS & HF).
  assert (Hlen : length buf = N).
  { rewrite (Permutation_length HP), app_length, repeat_length. lia. }
  assert (Hne : buf <> []) by (destruct buf; simpl in Hlen; [lia|discriminate]).
  assert (Hlt : Forall (fun x => x < c_minID_init) buf).
  { eapply Permutation_Forall; [symmetry; exact HP|]. apply Forall_app. split.
    - eapply Forall_impl; [|exact HF]. simpl; intros; lia.
    - apply Forall_forall. intros x Hx. apply repeat_spec in Hx. subst. reflexivity. }
  assert (HinS : In id buf <-> In id S).
  { split; intros H.
    - eapply Permutation_in in H; [|exact HP]. apply in_app_or in H. destruct H as [H|H]; [exact H|].
      apply repeat_spec in H. lia.
    - eapply Permutation_in; [symmetry; exact HP|]. apply in_or_app. left. exact H. }
  destruct (consume_abs buf id Hne Hlt) as (CA & CB).
  unfold spec_consume.
  destruct (existsb (Z.eqb id) S) eqn:EX.
  - apply existsb_eqb_In in EX. rewrite (CA (proj2 HinS EX)). split; [reflexivity|]. repeat split; assumption.
  - assert (Hnin : ~ In id buf).
    { intros H. apply HinS in H. apply existsb_eqb_In in H. congruence. }
    destruct (CB Hnin) as (m & rest & PM & FM & Hcase).
    assert (Hm_in : In m buf) by (eapply Permutation_in; [symmetry; exact PM|left; reflexivity]).
    destruct (Nat.leb_spec N (length S)) as [Full|NotFull]; simpl.
    + (* N ids stored: no zero slot left *)
      assert (EL : length S = N) by lia. rewrite EL, Nat.sub_diag in HP. simpl in HP. rewrite app_nil_r in HP.
      destruct S as [|s0 S0]; [simpl in EL; lia|].
      pose proof (StronglySorted_inv HS) as (HS0 & Hs0).
      assert (Em : m = s0).
      { apply (min_unique buf); try assumption.
        - eapply Permutation_in; [symmetry; exact HP|left; reflexivity].
        - eapply Permutation_Forall; [symmetry; exact HP|]. constructor; [lia|exact Hs0]. }
      subst m.
      destruct (forallb (Z.ltb id) (s0 :: S0)) eqn:FA.
      * apply forallb_ltb in FA. pose proof (Forall_inv FA) as FA0. simpl in FA0.
        destruct Hcase as [(L & E)|(L & _)]; [|lia]. rewrite E. split; [reflexivity|].
        unfold R. rewrite EL, Nat.sub_diag. simpl. rewrite app_nil_r. repeat split; try assumption. lia.
      * assert (Hge : s0 <= id).
        { destruct (Z.le_gt_cases s0 id) as [G|G]; [exact G|]. exfalso.
          assert (forallb (Z.ltb id) (s0 :: S0) = true); [|congruence].
          apply forallb_ltb. constructor; [lia|]. eapply Forall_impl; [|exact Hs0]. simpl; intros; lia. }
        destruct Hcase as [(L & _)|(_ & buf' & E & PB)]; [lia|]. rewrite E.
        assert (Hneq : id <> s0).
        { intros ->. apply Hnin. eapply Permutation_in; [symmetry; exact HP|left; reflexivity]. }
        simpl. destruct (Z.leb_spec id s0) as [L2|L2]; [lia|].
        simpl. rewrite insert_length.
        assert (EL0 : length S0 = (N - 1)%nat) by (simpl in EL; lia).
        destruct (Nat.ltb_spec N (Datatypes.S (Datatypes.S (length S0)))) as [_|Bad]; [|lia].
        simpl. split; [reflexivity|].
        assert (Prest : Permutation rest S0).
        { apply (Permutation_cons_inv (a := s0)). rewrite <- PM. exact HP. }
        unfold R. rewrite insert_length. pose proof (Forall_inv HF) as HF0. simpl in HF0. pose proof (Forall_inv_tail HF) as HF1.
        repeat split.
        -- lia.
        -- replace (N - Datatypes.S (length S0))%nat with 0%nat by lia. simpl. rewrite app_nil_r.
           rewrite PB, insert_perm. constructor. exact Prest.
        -- apply insert_sorted. exact HS0.
        -- eapply Permutation_Forall; [symmetry; apply insert_perm|]. constructor; assumption.
    + (* a zero slot exists: the minimum is 0 *)
      assert (Hz : In 0 buf).
      { eapply Permutation_in; [symmetry; exact HP|]. apply in_or_app. right.
        destruct (N - length S)%nat eqn:EN; [lia|]. left. reflexivity. }
      assert (Hnn : Forall (fun x => 0 <= x) buf).
      { eapply Permutation_Forall; [symmetry; exact HP|]. apply Forall_app. split.
        - eapply Forall_impl; [|exact HF]. simpl; intros; lia.
        - apply Forall_forall. intros x Hx. apply repeat_spec in Hx. lia. }
      assert (Em : m = 0) by (apply (min_unique buf); assumption). subst m.
      destruct Hcase as [(L & _)|(_ & buf' & E & PB)]; [lia|]. rewrite E.
      rewrite insert_length.
      destruct (Nat.ltb_spec N (Datatypes.S (length S))) as [Bad|_]; [lia|].
      split; [reflexivity|].
      destruct (N - length S)%nat as [|k] eqn:EN; [lia|].
      assert (Prest : Permutation rest (S ++ repeat 0 k)).
      { apply (Permutation_cons_inv (a := 0)). rewrite <- PM, HP. simpl. symmetry. apply Permutation_middle. }
      unfold R. rewrite insert_length. repeat split.
      * lia.
      * replace (N - Datatypes.S (length S))%nat with k by lia.
        rewrite PB, Prest. rewrite insert_perm. reflexivity.
      * apply insert_sorted. exact HS.
      * eapply Permutation_Forall; [symmetry; apply insert_perm|]. constructor; assumption.
Qed.

(* C07_buf_refines: for every window size N > 0 and every history of ids in the int64
   range above 0 (and below the maximum value, which initialises the minimum search), the
   accept/reject decisions of Consume equal those of the specification. *)
Lemma consume_run_refines N ids : forall buf S,
  (0 < N)%nat -> Forall (fun id => 0 < id < c_minID_init) ids -> R N buf S ->
  consume_run buf ids = spec_run N S ids.
Proof.
  induction ids as [|id t IH]; intros buf S HN Hids HR; simpl; [reflexivity|].
  inversion Hids; subst.
  pose proof (consume_refines N buf S id HN ltac:(assumption) HR) as H.
  destruct (consume buf id) as [b buf']. destruct (spec_consume N S id) as [b' S'].
  destruct H as (-> & HR'). f_equal. apply IH; assumption.
Qed.

Theorem buf_refines N ids :
  (0 < N)%nat -> Forall (fun id => 0 < id < c_minID_init) ids ->
  consume_run (buf_init N) ids = spec_run N [] ids.
Proof. intros. apply consume_run_refines; try assumption. apply R_init. Qed.

(* the defect repaired by the fix commit: an old, non-latest id replayed *)
Lemma replay_rejected : consume_run (buf_init 100) [100; 200; 100] = [true; true; false].
Proof. vm_compute. reflexivity. Qed.

(* ---------- the acceptance pipeline ---------- *)
Lemma server_typed_pos id : Z.rem id 4 = 1 \/ Z.rem id 4 = 3 -> 0 < id.
Proof.
  intros H. destruct (Z.lt_trichotomy id 0) as [L|[L|L]]; [|subst; cbv in H; destruct H; discriminate|exact L].
  assert (Hn : Z.rem id 4 <= 0) by (apply Z.rem_nonpos; lia). lia.
Qed.

Lemma server_type_iff id :
  (message_type_go id =? c_MessageFromServer) || (message_type_go id =? c_MessageServerResponse) = true <->
  Z.rem id 4 = 1 \/ Z.rem id 4 = 3.
Proof.
  unfold message_type_go, c_messageIDModulo, c_yieldClient, c_yieldServerResponse,
    c_yieldFromServer, c_MessageFromClient, c_MessageServerResponse, c_MessageFromServer, c_MessageUnknown.
  generalize (Z.rem id 4). intros r.
  destruct (Z.eqb_spec r 0); [cbn; split; [discriminate | lia]|].
  destruct (Z.eqb_spec r 1); [cbn; split; [left; assumption | reflexivity]|].
  destruct (Z.eqb_spec r 3); [cbn; split; [right; assumption | reflexivity]|].
  cbn; split; [discriminate | lia].
Qed.

Lemma window_iff t now P F : 0 <= P -> 0 <= F ->
  negb ((t <? now) && (now - t >? P)) && negb (t - now >? F) = true <-> now - P <= t /\ t <= now + F.
Proof.
  intros HP HF.
  destruct (Z.ltb_spec t now); destruct (Z.gtb_spec (now - t) P); destruct (Z.gtb_spec (t - now) F);
    cbn [andb negb]; split; intros HH; try discriminate; try reflexivity; lia.
Qed.

Lemma check_message_id_iff now id :
  check_message_id now id = true <->
  (Z.rem id 4 = 1 \/ Z.rem id 4 = 3) /\
  now - 300 * 1000000000 <= id_time_lib id <= now + 30 * 1000000000.
Proof.
  unfold check_message_id. cbv zeta. rewrite <- andb_assoc, andb_true_iff, server_type_iff, window_iff by (unfold c_maxPast, c_maxFuture; lia).
  unfold c_maxPast, c_maxFuture. change (300 * 1000000000) with 300000000000. change (30 * 1000000000) with 30000000000.
  tauto.
Qed.

Lemma decrypt_ok_iff m :
  decrypt_ok m = true <->
  d_auth m = true /\ 12 <= d_total m - d_len m <= 1024 /\ 0 <= d_len m /\ d_len m mod 4 = 0.
Proof.
  unfold decrypt_ok, c_minPadding, c_maxPadding.
  rewrite !andb_true_iff, !negb_true_iff, Z.eqb_eq.
  destruct (Z.gtb_spec (d_len m) (d_total m)); destruct (Z.ltb_spec (d_len m) 0);
    destruct (Z.ltb_spec (d_total m - d_len m) 12); destruct (Z.gtb_spec (d_total m - d_len m) 1024);
    (split; [intros (((((A & B) & C) & D) & E) & F); try discriminate | intros (A & B & C & D); try lia]).
  - rewrite Z.rem_mod_nonneg in D by lia. repeat split; try assumption; lia.
  - rewrite <- Z.rem_mod_nonneg in D by lia. repeat split; try assumption; reflexivity.
Qed.

Lemma condsb_iff session now m : condsb session now m = true <-> conds session now m.
Proof.
  unfold condsb, conds.
  rewrite !andb_true_iff, orb_true_iff, !Z.eqb_eq, !Z.leb_le. tauto.
Qed.

Lemma gate_iff session now m :
  decrypt_ok m && (d_session m =? session) && check_message_id now (d_id m) = true <-> conds session now m.
Proof.
  rewrite !andb_true_iff, decrypt_ok_iff, check_message_id_iff, Z.eqb_eq. unfold conds. tauto.
Qed.

Lemma gate_eq session now m :
  decrypt_ok m && (d_session m =? session) && check_message_id now (d_id m) = condsb session now m.
Proof.
  apply eq_true_iff_eq. rewrite gate_iff, condsb_iff. reflexivity.
Qed.

(* before 2038 an id that passes the time window is below the int64 maximum *)
Definition clock_bound : Z := 2147483616 * 1000000000.   (* (2^31 - 32) s *)
Lemma window_id_bound now id :
  now < clock_bound -> id_time_lib id <= now + 30 * 1000000000 -> id < c_minID_init.
Proof.
  unfold clock_bound, c_minID_init. intros Hn Hw. pose proof (id_time_lib_ge_sec id) as B.
  Z.to_euclidean_division_equations. lia.
Qed.

Lemma accept_run_refines N session h : forall buf S,
  (0 < N)%nat -> Forall (fun nm => fst nm < clock_bound) h -> R N buf S ->
  accept_run session buf h = spec_accept_run N session S h.
Proof.
  induction h as [|[now m] t IH]; intros buf S HN Hh HR; simpl; [reflexivity|].
  inversion Hh as [|? ? Hm Ht]; subst. simpl in Hm.
  unfold accept, spec_accept. rewrite gate_eq.
  destruct (condsb session now m) eqn:C.
  - apply condsb_iff in C. destruct C as (_ & _ & Ty & (_ & Hw) & _).
    pose proof (server_typed_pos _ Ty) as Hpos.
    pose proof (window_id_bound now (d_id m) Hm Hw) as Hmax.
    pose proof (consume_refines N buf S (d_id m) HN ltac:(lia) HR) as H.
    destruct (consume buf (d_id m)) as [b buf']. destruct (spec_consume N S (d_id m)) as [b' S'].
    destruct H as (-> & HR'). f_equal. apply IH; assumption.
  - f_equal. apply IH; assumption.
Qed.

(* C07_pipeline, history form: for every history of incoming frames processed at clock
   readings before 2038 the set of messages that reach handleMessage is exactly the set the
   specification accepts.  The history is in Consume order: readLoop handles every frame in
   its own goroutine, and MessageIDBuf.Consume (under its mutex) is the only step that
   touches shared state, so every concurrent execution is one of these histories. *)
Theorem pipeline_refines N session h :
  (0 < N)%nat -> Forall (fun nm => fst nm < clock_bound) h ->
  accept_run session (buf_init N) h = spec_accept_run N session [] h.
Proof. intros. apply accept_run_refines; try assumption. apply R_init. Qed.

Theorem pipeline_refines_call_site session h :
  Forall (fun nm => fst nm < clock_bound) h ->
  accept_run session (buf_init (Z.to_nat c_msgIDBufSize)) h =
  spec_accept_run (Z.to_nat c_msgIDBufSize) session [] h.
Proof. intros. apply pipeline_refines; [vm_compute; repeat constructor | assumption]. Qed.

(* C07_pipeline, single step: the specification accepts a message iff all conditions of the
   property hold. *)
Theorem spec_accept_iff N session S now m :
  fst (spec_accept N session S now m) = true <->
  conds session now m /\ ~ In (d_id m) S /\
  ~ ((N <= length S)%nat /\ Forall (fun x => d_id m < x) S).
Proof.
  unfold spec_accept. destruct (condsb session now m) eqn:C.
  - apply condsb_iff in C. unfold spec_consume.
    destruct (existsb (Z.eqb (d_id m)) S) eqn:EX.
    + apply existsb_eqb_In in EX. simpl. split; [discriminate|]. intros (_ & H & _). contradiction.
    + assert (Hnin : ~ In (d_id m) S) by (intros H; apply existsb_eqb_In in H; congruence).
      destruct (Nat.leb_spec N (length S)) as [Full|NotFull]; simpl.
      * destruct (forallb (Z.ltb (d_id m)) S) eqn:FA; simpl.
        -- apply forallb_ltb in FA. split; [discriminate|]. intros (_ & _ & H). exfalso. apply H. split; assumption.
        -- split; [|reflexivity]. intros _. split; [exact C|]. split; [exact Hnin|].
           intros (_ & H). apply forallb_ltb in H. congruence.
      * split; [|reflexivity]. intros _. split; [exact C|]. split; [exact Hnin|]. intros (H & _). lia.
  - simpl. split; [discriminate|]. intros (H & _). apply condsb_iff in H. congruence.
Qed.

(* the two repaired defects on the regenerated model *)
Lemma padding_below_12_rejected :
  decrypt_ok {| d_auth := true; d_session := 1; d_id := 5; d_len := 8; d_total := 16 |} = false.
Proof. vm_compute. reflexivity. Qed.

Lemma stale_rejected :
  check_message_id (1704067200 * 1000000000) ((1704067200 - 302) * 4294967296 + 2147483645) = false.
Proof. vm_compute. reflexivity. Qed.
