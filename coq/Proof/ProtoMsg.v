(* Proofs for the proto framing model: round trips, gzip bound, totality, container loop
   progress. *)
From Coq Require Import ZArith List Bool Lia.
From TD Require Import Lib.Bytes Lib.GoSem Lib.GoSlice Gen.TlConsts Gen.ProtoConsts Model.TlPrim Proof.TlPrim Model.ProtoMsg.
Import ListNotations.
Open Scope Z_scope.

Definition i64 (v : Z) : Prop := - 2 ^ 63 <= v < 2 ^ 63.
Definition i32 (v : Z) : Prop := - 2 ^ 31 <= v < 2 ^ 31.

Definition msg_limit : Z := 1024 * 1024.
Definition valid_msg (m : msg) : Prop :=
  i64 (m_id m) /\ i32 (m_seqno m) /\ m_bytes m = len (m_body m) /\ len (m_body m) <= msg_limit.

Lemma msg_len_bad_dec_spec n : msg_len_bad_dec_go n = false <-> 0 <= n <= msg_limit.
Proof.
  unfold msg_len_bad_dec_go, msg_limit. rewrite orb_false_iff, Z.ltb_ge, Z.gtb_ltb, Z.ltb_ge. lia.
Qed.
Lemma msg_len_bad_enc_spec n : msg_len_bad_enc_go n = false <-> 0 <= n <= msg_limit.
Proof.
  unfold msg_len_bad_enc_go, msg_limit. rewrite orb_false_iff, Z.ltb_ge, Z.gtb_ltb, Z.ltb_ge. lia.
Qed.

Lemma w_long_rt v r : i64 v -> wrapT (decode_long (encode_long v ++ r)) = Ok (v, r).
Proof. intros H. unfold wrapT. rewrite decode_long_rt by exact H. reflexivity. Qed.
Lemma w_int_rt v r : i32 v -> wrapT (decode_int (encode_int v ++ r)) = Ok (v, r).
Proof. intros H. unfold wrapT. rewrite decode_int_rt by exact H. reflexivity. Qed.
Lemma w_i32_rt v r : i32 v -> wrapT (decode_int32 (encode_int32 v ++ r)) = Ok (v, r).
Proof. intros H. unfold wrapT. rewrite decode_int32_rt by exact H. reflexivity. Qed.
Lemma w_take_app p r : wrapT (take (len p) (p ++ r)) = Ok (p, r).
Proof. unfold wrapT. rewrite take_app. reflexivity. Qed.
Lemma w_consume_rt id r : 0 <= id < 2 ^ 32 -> wrapT (consume_id id (encode_uint32 id ++ r)) = Ok r.
Proof. intros H. unfold wrapT. rewrite consume_id_app by exact H. reflexivity. Qed.

Lemma Ok_inj {E A} (a b : A) : @Ok E A a = Ok b -> a = b.
Proof. intros H. injection H. auto. Qed.

(* ---------- container ---------- *)

Lemma decode_message_rt m e r : valid_msg m -> encode_message m = Ok e -> decode_message (e ++ r) = Ok (m, r).
Proof.
  destruct m as [id seq n body]. unfold valid_msg, encode_message. cbn [m_id m_seqno m_bytes m_body].
  intros (Hid & Hseq & Hn & Hl). subst n. pose proof (len_nonneg body) as L0.
  assert (B : msg_len_bad_enc_go (len body) = false) by (apply msg_len_bad_enc_spec; lia).
  rewrite B. intros E. apply Ok_inj in E. subst e. unfold decode_message. rewrite <- ?app_assoc.
  rewrite w_long_rt by exact Hid. cbn [bind]. rewrite w_int_rt by exact Hseq. cbn [bind].
  rewrite w_int_rt by (unfold i32, msg_limit in *; lia). cbn [bind].
  assert (B2 : msg_len_bad_dec_go (len body) = false) by (apply msg_len_bad_dec_spec; lia).
  rewrite B2. destruct (Z.ltb_spec (len body) 0); [lia|].
  rewrite w_take_app. reflexivity.
Qed.

Lemma encode_message_len m e : encode_message m = Ok e -> len e = 16 + len (m_body m).
Proof.
  unfold encode_message. destruct (msg_len_bad_enc_go (m_bytes m)); [discriminate|]. intros E. apply Ok_inj in E. subst e.
  rewrite !len_app, encode_long_aligned, !encode_int_aligned. lia.
Qed.

Lemma dec_msgs_rt ms : forall e r fuel, Forall valid_msg ms -> encode_messages ms = Ok e ->
  (length ms <= fuel)%nat -> dec_msgs fuel (len ms) (e ++ r) = Ok (ms, r).
Proof.
  induction ms as [|m t IH]; intros e r fuel V E F.
  - cbn in E. apply Ok_inj in E; subst e. destruct fuel; reflexivity.
  - inversion V as [|? ? Vm Vt]; subst. cbn [encode_messages] in E.
    destruct (encode_message m) as [em| |] eqn:Em; cbn [bind] in E; try discriminate.
    destruct (encode_messages t) as [et| |] eqn:Et; cbn [bind] in E; try discriminate.
    apply Ok_inj in E; subst e. destruct fuel as [|f]; [cbn [length] in F; lia|].
    cbn [dec_msgs]. rewrite len_cons. pose proof (len_nonneg t).
    destruct (Z.leb_spec (1 + len t) 0); [lia|].
    rewrite <- app_assoc, (decode_message_rt m em (et ++ r) Vm Em). cbn [bind].
    replace (1 + len t - 1) with (len t) by lia.
    rewrite (IH et r f Vt eq_refl) by (cbn [length] in F; lia). reflexivity.
Qed.

Lemma encode_messages_len ms e : encode_messages ms = Ok e -> 16 * len ms <= len e.
Proof.
  revert e; induction ms as [|m t IH]; intros e E.
  - cbn in E. apply Ok_inj in E; subst e. cbn. lia.
  - cbn [encode_messages] in E.
    destruct (encode_message m) as [em| |] eqn:Em; cbn [bind] in E; try discriminate.
    destruct (encode_messages t) as [et| |] eqn:Et; cbn [bind] in E; try discriminate.
    apply Ok_inj in E; subst e. rewrite len_app, len_cons, (encode_message_len m em Em).
    specialize (IH et eq_refl). pose proof (len_nonneg (m_body m)). lia.
Qed.

Lemma container_id_range : 0 <= c_MessageContainerTypeID < 2 ^ 32.
Proof. vm_compute. split; [discriminate|reflexivity]. Qed.

Lemma container_roundtrip ms e r : Forall valid_msg ms -> len ms < 2 ^ 31 ->
  encode_container ms = Ok e -> decode_container (e ++ r) = Ok (ms, r).
Proof.
  intros V L E. unfold encode_container in E.
  destruct (encode_messages ms) as [body| |] eqn:Eb; cbn [bind] in E; try discriminate.
  apply Ok_inj in E; subst e. unfold decode_container. rewrite <- ?app_assoc.
  rewrite w_consume_rt by exact container_id_range. cbn [bind].
  pose proof (len_nonneg ms).
  rewrite w_int_rt by (unfold i32; lia). cbn [bind].
  unfold container_count_bad_go. destruct (Z.ltb_spec (len ms) 0); [lia|].
  apply dec_msgs_rt; auto.
  pose proof (encode_messages_len ms body Eb). rewrite app_length. unfold len in *. lia.
Qed.

(* malformed count: a negative message count is an error *)
Lemma container_negative_count n r : - 2 ^ 31 <= n < 0 ->
  decode_container (encode_uint32 c_MessageContainerTypeID ++ encode_int n ++ r) = Err (PTl EInvalidLength).
Proof.
  intros H. unfold decode_container.
  rewrite w_consume_rt by exact container_id_range. cbn [bind].
  rewrite w_int_rt by (unfold i32; lia). cbn [bind].
  unfold container_count_bad_go. destruct (Z.ltb_spec n 0); [reflexivity|lia].
Qed.

(* the encoder succeeds on valid messages *)
Lemma encode_messages_ok ms : Forall valid_msg ms -> exists e, encode_messages ms = Ok e.
Proof.
  induction 1 as [|m t (Hid & Hseq & Hn & Hl) _ [et Et]]; [exists []; reflexivity|].
  cbn [encode_messages]. unfold encode_message.
  assert (B : msg_len_bad_enc_go (m_bytes m) = false) by (apply msg_len_bad_enc_spec; pose proof (len_nonneg (m_body m)); lia).
  rewrite B. cbn [bind]. rewrite Et. cbn [bind]. eauto.
Qed.
Lemma encode_container_ok ms : Forall valid_msg ms -> exists e, encode_container ms = Ok e.
Proof. intros V. unfold encode_container. destruct (encode_messages_ok ms V) as [e ->]. cbn [bind]. eauto. Qed.

(* ---------- totality and progress ---------- *)

Definition safeP {A} (r : res p_err (A * list Z)) : Prop :=
  match r with Ok (_, b) => bytes_ok b | Err _ => True | Panic => False end.

Lemma safe_w_long b : bytes_ok b -> safeP (wrapT (decode_long b)).
Proof.
  intros OK. unfold wrapT. destruct (decode_long_spec b) as [[_ E]|[_ E]]; rewrite E; cbn [map_err safeP]; auto.
  apply bytes_ok_skipn, OK.
Qed.
Lemma safe_w_int b : bytes_ok b -> safeP (wrapT (decode_int b)).
Proof.
  intros OK. unfold wrapT, decode_int. destruct (decode_int32_spec b) as [[_ E]|[_ E]]; rewrite E; cbn [map_err safeP]; auto.
  apply bytes_ok_skipn, OK.
Qed.
Lemma safe_w_take n b : 0 <= n -> bytes_ok b -> safeP (wrapT (take n b)).
Proof.
  intros Hn OK. unfold wrapT. destruct (take_spec n b Hn) as [[_ E]|[_ E]]; rewrite E; cbn [map_err safeP]; auto.
  apply bytes_ok_skipn, OK.
Qed.
Lemma safe_w_bytes b : bytes_ok b -> safeP (wrapT (decode_bytes b)).
Proof.
  intros OK. unfold wrapT. pose proof (decode_bytes_outcome b OK) as O.
  destruct (decode_bytes b) as [[v r]| |]; cbn [map_err safeP]; auto; inversion O; subst.
  match goal with H : bytes_ok (_ ++ _ ++ _ ++ _) |- _ => rewrite !bytes_ok_app in H; tauto end.
Qed.
Lemma w_consume_cases id b : bytes_ok b ->
  match wrapT (consume_id id b) with Ok b1 => bytes_ok b1 /\ len b1 + 4 = len b | Err e => exists t, e = PTl t | Panic => False end.
Proof.
  intros OK. unfold wrapT.
  destruct (consume_id_spec id b) as [[_ E]|[[_ [_ E]]|[L [_ E]]]]; rewrite E; cbn [map_err]; eauto.
  split; [apply bytes_ok_skipn, OK|]. rewrite len_skipn. unfold len in *. lia.
Qed.

(* one message: never panics; on success it leaves a byte list that is at least 16 bytes
   shorter (exactly 16 + body length) *)
Lemma decode_message_progress b : bytes_ok b ->
  match decode_message b with
  | Ok (m, b1) => bytes_ok b1 /\ len b = len b1 + 16 + m_bytes m /\ 0 <= m_bytes m <= msg_limit /\ m_bytes m = len (m_body m)
  | Err e => e <> POutOfFuel
  | Panic => False
  end.
Proof.
  intros OK. unfold decode_message, wrapT.
  destruct (decode_long_spec b) as [[_ E]|[L1 E]]; rewrite E; cbn [map_err bind]; try discriminate.
  unfold decode_int.
  destruct (decode_int32_spec (skipn 8 b)) as [[_ E2]|[L2 E2]]; rewrite E2; cbn [map_err bind]; try discriminate.
  destruct (decode_int32_spec (skipn 4 (skipn 8 b))) as [[_ E3]|[L3 E3]]; rewrite E3; cbn [map_err bind]; try discriminate.
  set (n := to_signed 32 (le_dec (firstn 4 (skipn 4 (skipn 8 b))))).
  destruct (msg_len_bad_dec_go n) eqn:B; [discriminate|]. apply msg_len_bad_dec_spec in B.
  destruct (Z.ltb_spec n 0); [lia|].
  set (b3 := skipn 4 (skipn 4 (skipn 8 b))) in *.
  assert (Lb3 : len b = len b3 + 16).
  { subst b3. rewrite !len_skipn in *. unfold len in *. rewrite !skipn_length in *. lia. }
  destruct (take_spec n b3 ltac:(lia)) as [[_ E4]|[L4 E4]]; rewrite E4; cbn [map_err bind]; try discriminate.
  cbn [m_bytes m_body]. repeat split.
  - subst b3. repeat apply bytes_ok_skipn. exact OK.
  - rewrite len_skipn. unfold len in *. lia.
  - lia.
  - lia.
  - unfold len in *. rewrite firstn_length_le by lia. lia.
Qed.

Lemma dec_msgs_total fuel : forall k b, bytes_ok b -> (length b < fuel)%nat ->
  match dec_msgs fuel k b with
  | Ok (ms, b1) => bytes_ok b1 /\ 16 * len ms <= len b - len b1
  | Err e => e <> POutOfFuel
  | Panic => False
  end.
Proof.
  induction fuel as [|f IH]; intros k b OK F; [lia|].
  cbn [dec_msgs]. destruct (k <=? 0); [split; [exact OK|cbn; lia]|].
  pose proof (decode_message_progress b OK) as P.
  destruct (decode_message b) as [[m b1]| |]; cbn [bind]; [|exact P|exact P].
  destruct P as (OK1 & L & R & _).
  assert (F1 : (length b1 < f)%nat) by (unfold len in L; lia).
  specialize (IH (k - 1) b1 OK1 F1).
  destruct (dec_msgs f (k - 1) b1) as [[ms b2]| |]; cbn [bind]; auto.
  destruct IH as [OK2 L2]. split; [exact OK2|]. rewrite len_cons. lia.
Qed.

Lemma decode_container_total b : bytes_ok b ->
  match decode_container b with
  | Ok (ms, b1) => bytes_ok b1 /\ 16 * len ms + 8 <= len b - len b1
  | Err e => e <> POutOfFuel
  | Panic => False
  end.
Proof.
  intros OK. unfold decode_container.
  pose proof (w_consume_cases c_MessageContainerTypeID b OK) as C.
  destruct (wrapT (consume_id c_MessageContainerTypeID b)) as [b1| |]; cbn [bind]; [|destruct C as [t ->]; discriminate|exact C].
  destruct C as [OK1 L1]. unfold wrapT, decode_int.
  destruct (decode_int32_spec b1) as [[_ E]|[L2 E]]; rewrite E; cbn [map_err bind]; [discriminate|].
  destruct (container_count_bad_go (to_signed 32 (le_dec (firstn 4 b1)))); [discriminate|].
  pose proof (dec_msgs_total (S (length (skipn 4 b1))) (to_signed 32 (le_dec (firstn 4 b1))) (skipn 4 b1)
                (bytes_ok_skipn 4 b1 OK1) ltac:(lia)) as T.
  destruct (dec_msgs _ _ _) as [[ms b2]| |]; auto.
  destruct T as [OK2 L3]. split; [exact OK2|]. rewrite len_skipn in L3. unfold len in *. lia.
Qed.

(* ---------- rpc_result ---------- *)
Lemma result_id_range : 0 <= c_ResultTypeID < 2 ^ 32.
Proof. vm_compute. split; [discriminate|reflexivity]. Qed.
Lemma result_roundtrip id body : i64 id -> decode_result (encode_result id body) = Ok (id, body, []).
Proof.
  intros H. unfold decode_result, encode_result.
  rewrite w_consume_rt by exact result_id_range. cbn [bind]. rewrite w_long_rt by exact H. cbn [bind].
  pose proof (len_nonneg body). rewrite go_slice_ok by lia. cbn [bind].
  rewrite Z.sub_diag. cbn [Z.to_nat firstn]. reflexivity.
Qed.
Lemma decode_result_total b : bytes_ok b -> decode_result b <> Panic.
Proof.
  intros OK. unfold decode_result.
  pose proof (w_consume_cases c_ResultTypeID b OK) as C.
  destruct (wrapT (consume_id c_ResultTypeID b)) as [b1| |]; cbn [bind]; [|discriminate|contradiction].
  destruct C as [OK1 _]. pose proof (safe_w_long b1 OK1) as S.
  destruct (wrapT (decode_long b1)) as [[id b2]| |]; cbn [bind]; [|discriminate|contradiction].
  pose proof (len_nonneg b2). rewrite go_slice_ok by lia. discriminate.
Qed.

(* ---------- unencrypted message ---------- *)
Lemma unencrypted_roundtrip id data r : i64 id -> len data < 2 ^ 31 ->
  decode_unencrypted (encode_unencrypted id data ++ r) = Ok (id, data, r).
Proof.
  intros H L. pose proof (len_nonneg data). pose proof (len_nonneg r).
  unfold decode_unencrypted, encode_unencrypted. rewrite <- ?app_assoc.
  rewrite w_long_rt by (unfold i64; lia). cbn [bind]. change (negb (0 =? 0)) with false. cbv iota.
  rewrite w_long_rt by exact H. cbn [bind].
  rewrite w_i32_rt by (unfold i32; lia). cbn [bind].
  destruct (Z.ltb_spec (len data) 0); [lia|].
  rewrite len_app. destruct (Z.gtb_spec (len data) (len data + len r)); [lia|].
  rewrite w_take_app. reflexivity.
Qed.
Lemma decode_unencrypted_total b : bytes_ok b -> decode_unencrypted b <> Panic.
Proof.
  intros OK. unfold decode_unencrypted.
  pose proof (safe_w_long b OK) as S1.
  destruct (wrapT (decode_long b)) as [[ak b1]| |]; cbn [bind safeP] in *; [|discriminate|contradiction].
  destruct (negb (ak =? 0)); [discriminate|].
  pose proof (safe_w_long b1 S1) as S2.
  destruct (wrapT (decode_long b1)) as [[id b2]| |]; cbn [bind safeP] in *; [|discriminate|contradiction].
  assert (S3 : safeP (wrapT (decode_int32 b2))) by (apply (safe_w_int b2 S2)).
  destruct (wrapT (decode_int32 b2)) as [[dl b3]| |]; cbn [bind safeP] in *; [|discriminate|contradiction].
  destruct (Z.ltb_spec dl 0); [discriminate|]. destruct (dl >? len b3); [discriminate|].
  pose proof (safe_w_take dl b3 ltac:(lia) S3) as S4.
  destruct (wrapT (take dl b3)) as [[d b4]| |]; cbn [bind safeP] in *; [discriminate|discriminate|contradiction].
Qed.

(* ---------- reused receivers: the result does not depend on what the value held ---------- *)
Lemma go_copy_fresh p : go_copy (zeros (len p)) p = p.
Proof.
  unfold go_copy, zeros, len. rewrite repeat_length, Nat2Z.id, firstn_all.
  rewrite skipn_all2 by (rewrite repeat_length; lia). apply app_nil_r.
Qed.
Lemma decode_unencrypted_reuse old b : decode_unencrypted_into old b = decode_unencrypted b.
Proof.
  unfold decode_unencrypted_into, decode_unencrypted.
  destruct (wrapT (decode_long b)) as [[ak b1]| |]; cbn [bind]; try reflexivity.
  destruct (negb (ak =? 0)); [reflexivity|].
  destruct (wrapT (decode_long b1)) as [[id b2]| |]; cbn [bind]; try reflexivity.
  destruct (wrapT (decode_int32 b2)) as [[dl b3]| |]; cbn [bind]; try reflexivity.
  destruct (Z.ltb_spec dl 0); [reflexivity|]. destruct (dl >? len b3); [reflexivity|].
  unfold wrapT. destruct (take dl b3) as [[p b4]| |] eqn:T; cbn [map_err bind]; try reflexivity.
  destruct (take_ok_inv dl b3 p b4 ltac:(lia) T) as [_ L].
  unfold go_reset_append. cbn [firstn app]. rewrite <- L, go_copy_fresh. reflexivity.
Qed.
Lemma decode_result_reuse old b : decode_result_into old b = decode_result b.
Proof. reflexivity. Qed.
Lemma decode_container_reuse old b : decode_container_into old b = decode_container b.
Proof.
  unfold decode_container_into, decode_container.
  destruct (wrapT (consume_id c_MessageContainerTypeID b)) as [b1| |]; cbn [bind]; try reflexivity.
  destruct (wrapT (decode_int b1)) as [[n b2]| |]; cbn [bind]; try reflexivity.
  destruct (container_count_bad_go n); [reflexivity|].
  destruct (dec_msgs (S (length b2)) n b2) as [[ms b3]| |]; reflexivity.
Qed.

(* ---------- gzip ---------- *)
Lemma len_take_z l : forall n, 0 <= n -> len (take_z n l) = Z.min n (len l).
Proof.
  induction l as [|x t IH]; intros n Hn; cbn [take_z].
  - change (len (@nil Z)) with 0. lia.
  - destruct (Z.leb_spec n 0).
    + change (len (@nil Z)) with 0. pose proof (len_nonneg (x :: t)). lia.
    + rewrite !len_cons, IH by lia. lia.
Qed.
Lemma take_z_all l : forall n, len l <= n -> take_z n l = l.
Proof.
  induction l as [|x t IH]; intros n Hn; cbn [take_z]; [reflexivity|].
  rewrite len_cons in Hn. pose proof (len_nonneg t).
  destruct (Z.leb_spec n 0); [lia|]. rewrite IH by lia. reflexivity.
Qed.

(* the read cap handed to io.LimitReader is the limit the bomb test compares with *)
Lemma limit_reader_arg_is_limit : limit_reader_arg_go = c_maxUncompressedSize.
Proof. reflexivity. Qed.

Lemma gzip_bomb_spec n : gzip_bomb_go n = false <-> n < c_maxUncompressedSize.
Proof. unfold gzip_bomb_go. rewrite Z.geb_leb, Z.leb_gt. reflexivity. Qed.

Section GzipProofs.
  Variable gzip : list Z -> list Z.
  Variable gz_head : list Z -> bool.
  Variable gz_stream : list Z -> list Z * bool.

  Lemma gzip_id_range : 0 <= c_GZIPTypeID < 2 ^ 32.
  Proof. vm_compute. split; [discriminate|reflexivity]. Qed.

  (* the decompressor inverts the compressor *)
  Hypothesis gunzip_gzip : forall x, gz_head (gzip x) = true /\ gz_stream (gzip x) = (x, false).

  Lemma gzip_roundtrip x r : len x < c_maxUncompressedSize -> len (gzip x) < 2 ^ 24 ->
    decode_gzip gz_head gz_stream (encode_gzip gzip x ++ r) = Ok (x, r).
  Proof.
    intros L LZ. unfold decode_gzip, encode_gzip. rewrite <- ?app_assoc.
    rewrite w_consume_rt by exact gzip_id_range. cbn [bind].
    unfold wrapT. rewrite decode_bytes_rt by exact LZ. cbn [map_err bind].
    destruct (gunzip_gzip x) as [H S]. unfold gzip_read; rewrite ?limit_reader_arg_is_limit. rewrite S, H. cbn [andb negb].
    unfold gzip_outcome. cbn [negb].
    rewrite take_z_all by lia.
    assert (B : gzip_bomb_go (len x) = false) by (apply gzip_bomb_spec, L). rewrite B. reflexivity.
  Qed.
End GzipProofs.

(* statements that need no assumption about the (de)compressor *)
Section GzipAny.
  Variable gz_head : list Z -> bool.
  Variable gz_stream : list Z -> list Z * bool.

  (* LimitReader: at most the limit is ever read out of the decompressor *)
  Lemma gzip_read_bounded buf : len (fst (gzip_read gz_stream buf)) <= c_maxUncompressedSize.
  Proof.
    unfold gzip_read; rewrite ?limit_reader_arg_is_limit. destruct (gz_stream buf) as [stream serr]. cbn [fst].
    assert (0 <= c_maxUncompressedSize) by (unfold c_maxUncompressedSize; lia).
    rewrite len_take_z by assumption. lia.
  Qed.

  (* bomb: decoding succeeds only if the decompressed length is below the limit *)
  Lemma gzip_bomb b data r : decode_gzip gz_head gz_stream b = Ok (data, r) ->
    len data < c_maxUncompressedSize /\
    exists buf, data = fst (gzip_read gz_stream buf) /\ len (fst (gz_stream buf)) < c_maxUncompressedSize /\ data = fst (gz_stream buf).
  Proof.
    assert (P : 0 <= c_maxUncompressedSize) by (unfold c_maxUncompressedSize; lia).
    unfold decode_gzip.
    destruct (wrapT (consume_id c_GZIPTypeID b)) as [b1| |]; cbn [bind]; try discriminate.
    destruct (wrapT (decode_bytes b1)) as [[buf b2]| |]; cbn [bind]; try discriminate.
    unfold gzip_read; rewrite ?limit_reader_arg_is_limit. destruct (gz_stream buf) as [stream serr] eqn:S.
    unfold gzip_outcome. destruct (negb (gz_head buf)); cbn [bind]; try discriminate.
    destruct (serr && (len stream <? c_maxUncompressedSize)) eqn:Es; cbn [bind]; try discriminate.
    destruct (gzip_bomb_go (len (take_z c_maxUncompressedSize stream))) eqn:B; cbn [bind]; try discriminate.
    intros E. apply Ok_inj in E. apply pair_equal_spec in E. destruct E as [E1 E2]. subst data r.
    apply gzip_bomb_spec in B.
    assert (L : len stream < c_maxUncompressedSize) by (rewrite len_take_z in B by exact P; lia).
    split; [exact B|]. exists buf. rewrite S. cbn [fst].
    repeat split; auto. apply take_z_all. lia.
  Qed.

  Lemma decode_gzip_total b : bytes_ok b -> decode_gzip gz_head gz_stream b <> Panic.
  Proof.
    intros OK. unfold decode_gzip.
    pose proof (w_consume_cases c_GZIPTypeID b OK) as C.
    destruct (wrapT (consume_id c_GZIPTypeID b)) as [b1| |]; cbn [bind]; [|discriminate|contradiction].
    destruct C as [OK1 _]. pose proof (safe_w_bytes b1 OK1) as S.
    destruct (wrapT (decode_bytes b1)) as [[buf b2]| |]; cbn [bind]; [|discriminate|contradiction].
    destruct (gzip_read gz_stream buf) as [data e]. unfold gzip_outcome.
    destruct (negb (gz_head buf)); cbn [bind]; [discriminate|].
    destruct e; cbn [bind]; [discriminate|]. destruct (gzip_bomb_go (len data)); cbn [bind]; discriminate.
  Qed.

  Lemma decode_gzip_code_agrees h stream serr b :
    (forall buf, gz_head buf = h /\ gz_stream buf = (stream, serr)) ->
    res_code (decode_gzip gz_head gz_stream b) = decode_gzip_code h (len stream) serr b.
  Proof.
    intros H. assert (P : 0 <= c_maxUncompressedSize) by (unfold c_maxUncompressedSize; lia).
    unfold decode_gzip, decode_gzip_code.
    destruct (wrapT (consume_id c_GZIPTypeID b)) as [b1| |]; cbn [bind res_code]; try reflexivity.
    destruct (wrapT (decode_bytes b1)) as [[buf b2]| |]; cbn [bind res_code]; try reflexivity.
    destruct (H buf) as [Hh Hs]. unfold gzip_read; rewrite ?limit_reader_arg_is_limit. rewrite Hs, Hh.
    unfold gzip_outcome, gzip_status. rewrite len_take_z by exact P.
    destruct (negb h); [reflexivity|]. destruct (serr && (len stream <? c_maxUncompressedSize)); [reflexivity|].
    destruct (gzip_bomb_go (Z.min c_maxUncompressedSize (len stream))); reflexivity.
  Qed.

  Lemma gzip_status_agrees h data e : res_code (gzip_outcome h data e) = gzip_status h (len data) e.
  Proof. unfold gzip_outcome, gzip_status. destruct (negb h), e, (gzip_bomb_go (len data)); reflexivity. Qed.
End GzipAny.
