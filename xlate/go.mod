module verifxlate

go 1.23
