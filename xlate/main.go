// xlate: translator from pure Go fragments of gotd/td to Gallina.
//
// Usage: xlate -repo /repo -spec spec.json -out /verif/coq/Gen
//
// A spec lists output files; each output file lists items:
//
//	{"kind":"const","file":"crypto/keys.go","names":["Client"]}
//	{"kind":"localconst","file":"crypto/cipher_decrypt.go","func":"Cipher.Decrypt","names":["maxPadding"]}
//	{"kind":"func","file":"telegram/updates/gap_check.go","func":"checkGap",
//	 "name":"check_gap","params":["localState","remoteState","count"],
//	 "ret":"Z","rename":{"a.GetOffset()":"ao"},"skip":["a, b := e[i], e[j]"]}
//
// The supported Go subset is: integer/boolean expressions, :=, =, op=, ++/--,
// var declarations of integers, if/else, expression and tagless switch, return.
// Everything is mapped to Z (unbounded) and bool. Fixed-width conversions
// (byte, uint16, uint32, int32) are translated to explicit wraps. Anything else
// makes the translator fail loudly ("shape not understood"), which the check
// driver treats as a broken proof obligation.
package main

import (
	"encoding/json"
	"flag"
	"fmt"
	"go/ast"
	"go/constant"
	"go/parser"
	"go/printer"
	"go/token"
	"os"
	"path/filepath"
	"sort"
	"strings"
)

type Item struct {
	Kind   string            `json:"kind"`
	File   string            `json:"file"`
	Func   string            `json:"func"`
	Name   string            `json:"name"`
	Params []string          `json:"params"`
	PTypes map[string]string `json:"ptypes"` // param -> "bool" (default Z)
	Ret    string            `json:"ret"`
	Rename map[string]string `json:"rename"`
	Skip   []string          `json:"skip"`
	Names  []string          `json:"names"`
	Prefix string            `json:"prefix"`
	// Bools lists local variable names that are booleans.
	Bools []string `json:"bools"`
	// Calls maps Go callee names to Coq function names (already defined
	// earlier in the same generated file or imported).
	Calls map[string]string `json:"calls"`
	// Stmt selects one statement of Func by source-text prefix (kind "expr", see ext_expr.go).
	Stmt string `json:"stmt"`
	// Callee/Arg (kind "expr"): instead of the statement's own expression take argument number Arg
	// (0-based) of the unique call of Callee (printed form, e.g. "io.LimitReader") inside the statement.
	Callee string `json:"callee"`
	Arg    int    `json:"arg"`
	// Part = "init" selects the init statement of the matched `if` instead of its condition.
	Part string `json:"part"`
	// Also lists locals (typically renamed receiver fields) appended to every returned
	// tuple, so that a method's state update is part of the translation (ext_mtproto.go).
	Also []string `json:"also"`
	// VarArgs: callee (Go name) -> number of fixed arguments; the remaining
	// (variadic) arguments are packed into a Coq list (b-exchange, C13).
	VarArgs map[string]int `json:"varargs"`
	// Methods maps a Go method name to a Coq function: recv.M(a, b) -> (f recv a b).
	Methods map[string]string `json:"methods"`
	// ErrCalls lists error constructors (e.g. "errors.New"); the k-th such call
	// in source order (k = 1..) is translated to the integer ErrBase + k.
	ErrCalls []string `json:"errcalls"`
	// Pkgs maps a package identifier used in File to its directory (kind "switchtable", ext_switch.go).
	Pkgs    map[string]string `json:"pkgs"`
	ErrBase int               `json:"errbase"`
	// ErrIsFn / ErrIs (b-rpc, C26): errors.Is(e, S) is translated to (ErrIsFn id) where id is
	// ErrIs[source text of S]; a sentinel that is not in the table gets a stable id >= 1000
	// derived from its text, so a classification function that grows a new errors.Is target
	// still translates (and the theorems about it are re-checked) instead of being refused.
	ErrIsFn string           `json:"errisfn"`
	ErrIs   map[string]int64 `json:"erris"`
}

type Output struct {
	Out     string   `json:"out"`
	Imports []string `json:"imports"`
	Items   []Item   `json:"items"`
}

var fset = token.NewFileSet()

func die(format string, a ...interface{}) {
	fmt.Fprintf(os.Stderr, "xlate: "+format+"\n", a...)
	os.Exit(2)
}

func show(n ast.Node) string {
	var sb strings.Builder
	_ = printer.Fprint(&sb, fset, n)
	return sb.String()
}

// ---------- package constants ----------

type pkgConsts struct {
	vals map[string]constant.Value
}

var timeUnits = map[string]int64{
	"Nanosecond": 1, "Microsecond": 1e3, "Millisecond": 1e6, "Second": 1e9, "Minute": 60e9, "Hour": 3600e9,
}

// stdSizes: standard-library size constants that package-level constants refer to.
var stdSizes = map[string]int64{
	"sha1.Size": 20, "sha1.BlockSize": 64, "sha256.Size": 32, "sha256.BlockSize": 64,
	"sha512.Size": 64, "md5.Size": 16, "aes.BlockSize": 16,
}

func loadConsts(dir string) *pkgConsts {
	pc := &pkgConsts{vals: map[string]constant.Value{}}
	pkgs, err := parser.ParseDir(fset, dir, func(fi os.FileInfo) bool {
		return !strings.HasSuffix(fi.Name(), "_test.go")
	}, 0)
	if err != nil {
		die("parse %s: %v", dir, err)
	}
	type pend struct {
		name string
		expr ast.Expr
		iota int64
	}
	var pending []pend
	for _, p := range pkgs {
		for _, f := range p.Files {
			for _, d := range f.Decls {
				gd, ok := d.(*ast.GenDecl)
				if !ok || gd.Tok != token.CONST {
					continue
				}
				var lastExprs []ast.Expr
				for i, s := range gd.Specs {
					vs := s.(*ast.ValueSpec)
					if len(vs.Values) > 0 {
						lastExprs = vs.Values
					}
					for j, n := range vs.Names {
						if n.Name == "_" || j >= len(lastExprs) {
							continue
						}
						pending = append(pending, pend{n.Name, lastExprs[j], int64(i)})
					}
				}
			}
		}
	}
	// fixpoint evaluation (constants may reference each other)
	for round := 0; round < 20 && len(pending) > 0; round++ {
		var rest []pend
		for _, p := range pending {
			v, ok := pc.eval(p.expr, p.iota)
			if ok {
				pc.vals[p.name] = v
			} else {
				rest = append(rest, p)
			}
		}
		pending = rest
	}
	return pc
}

func (pc *pkgConsts) eval(e ast.Expr, iota int64) (constant.Value, bool) {
	switch x := e.(type) {
	case *ast.BasicLit:
		v := constant.MakeFromLiteral(x.Value, x.Kind, 0)
		if v.Kind() == constant.Unknown {
			return nil, false
		}
		if v.Kind() == constant.Float {
			if iv := constant.ToInt(v); iv.Kind() == constant.Int {
				return iv, true
			}
		}
		return v, true
	case *ast.Ident:
		if x.Name == "iota" {
			return constant.MakeInt64(iota), true
		}
		if x.Name == "true" {
			return constant.MakeBool(true), true
		}
		if x.Name == "false" {
			return constant.MakeBool(false), true
		}
		v, ok := pc.vals[x.Name]
		return v, ok
	case *ast.ParenExpr:
		return pc.eval(x.X, iota)
	case *ast.SelectorExpr:
		if id, ok := x.X.(*ast.Ident); ok {
			if id.Name == "time" {
				if u, ok := timeUnits[x.Sel.Name]; ok {
					return constant.MakeInt64(u), true
				}
			}
			if v, ok := stdSizes[id.Name+"."+x.Sel.Name]; ok {
				return constant.MakeInt64(v), true
			}
			if v, ok := extSelConst(id.Name, x.Sel.Name); ok { // ext_transfer.go: constants of another repo package
				return v, true
			}
			if id.Name == "math" {
				switch x.Sel.Name {
				case "MaxInt32":
					return constant.MakeInt64(1<<31 - 1), true
				case "MaxInt64":
					return constant.MakeInt64(1<<63 - 1), true
				case "MaxUint32":
					return constant.MakeInt64(1<<32 - 1), true
				case "MaxUint16":
					return constant.MakeInt64(1<<16 - 1), true
				}
			}
		}
		return nil, false
	case *ast.CallExpr: // conversion T(x)
		if len(x.Args) == 1 {
			return pc.eval(x.Args[0], iota)
		}
		return nil, false
	case *ast.UnaryExpr:
		v, ok := pc.eval(x.X, iota)
		if !ok {
			return nil, false
		}
		return constant.UnaryOp(x.Op, v, 0), true
	case *ast.BinaryExpr:
		a, ok1 := pc.eval(x.X, iota)
		b, ok2 := pc.eval(x.Y, iota)
		if !ok1 || !ok2 {
			return nil, false
		}
		switch x.Op {
		case token.SHL, token.SHR:
			s, ok := constant.Uint64Val(b)
			if !ok {
				return nil, false
			}
			return constant.Shift(a, x.Op, uint(s)), true
		case token.QUO:
			if a.Kind() == constant.Int && b.Kind() == constant.Int {
				return constant.BinaryOp(a, token.QUO_ASSIGN, b), true
			}
		case token.EQL, token.NEQ, token.LSS, token.LEQ, token.GTR, token.GEQ:
			return constant.MakeBool(constant.Compare(a, x.Op, b)), true
		}
		return constant.BinaryOp(a, x.Op, b), true
	}
	return nil, false
}

// ---------- function translation ----------

type tr struct {
	named  []string // named results (for bare returns)
	it     Item
	pc     *pkgConsts
	used   map[string]bool // package constants referenced
	bools  map[string]bool
	locals map[string]bool
	errIdx map[token.Pos]int // position of an error-constructor call -> 1-based index
}

func zlit(v constant.Value) string {
	s := v.ExactString()
	if strings.HasPrefix(s, "-") {
		return "(" + s + ")"
	}
	return s
}

func (t *tr) isBoolExpr(e ast.Expr) bool {
	switch x := e.(type) {
	case *ast.ParenExpr:
		return t.isBoolExpr(x.X)
	case *ast.BinaryExpr:
		switch x.Op {
		case token.LAND, token.LOR, token.EQL, token.NEQ, token.LSS, token.LEQ, token.GTR, token.GEQ:
			return true
		}
	case *ast.UnaryExpr:
		return x.Op == token.NOT
	case *ast.Ident:
		return x.Name == "true" || x.Name == "false" || t.bools[x.Name]
	}
	if r, ok := t.it.Rename[show(e)]; ok {
		return t.bools[r]
	}
	return false
}

func (t *tr) expr(e ast.Expr) string {
	if r, ok := t.it.Rename[show(e)]; ok {
		return r
	}
	switch x := e.(type) {
	case *ast.ParenExpr:
		return t.expr(x.X)
	case *ast.SelectorExpr: // time.Second etc. and other package constants the constant evaluator knows
		if v, ok := t.pc.eval(x, 0); ok && v.Kind() == constant.Int {
			return zlit(v)
		}
	case *ast.BasicLit:
		v := constant.MakeFromLiteral(x.Value, x.Kind, 0)
		if v.Kind() == constant.Float { // integral float literal such as 1e9
			if iv := constant.ToInt(v); iv.Kind() == constant.Int {
				v = iv
			}
		}
		if v.Kind() != constant.Int {
			die("%s: non-integer literal %s", t.it.Func, x.Value)
		}
		return zlit(v)
	case *ast.Ident:
		if x.Name == "true" || x.Name == "false" {
			return x.Name
		}
		if t.locals[x.Name] {
			return x.Name
		}
		if v, ok := t.pc.vals[x.Name]; ok {
			t.used[x.Name] = true
			_ = v
			return "c_" + x.Name
		}
		die("%s: unknown identifier %s", t.it.Func, x.Name)
	case *ast.UnaryExpr:
		switch x.Op {
		case token.SUB:
			return "(- " + t.expr(x.X) + ")"
		case token.NOT:
			return "(negb " + t.expr(x.X) + ")"
		case token.ADD:
			return t.expr(x.X)
		}
	case *ast.BinaryExpr:
		a, b := t.expr(x.X), t.expr(x.Y)
		f := func(op string) string { return "(" + op + " " + a + " " + b + ")" }
		switch x.Op {
		case token.ADD:
			return "(" + a + " + " + b + ")"
		case token.SUB:
			return "(" + a + " - " + b + ")"
		case token.MUL:
			return "(" + a + " * " + b + ")"
		case token.QUO:
			return f("Z.quot")
		case token.REM:
			return f("Z.rem")
		case token.AND:
			return f("Z.land")
		case token.OR:
			return f("Z.lor")
		case token.XOR:
			return f("Z.lxor")
		case token.SHL:
			return f("Z.shiftl")
		case token.SHR:
			return f("Z.shiftr")
		case token.AND_NOT:
			return "(Z.land " + a + " (Z.lnot " + b + "))"
		case token.LAND:
			return f("andb")
		case token.LOR:
			return f("orb")
		case token.EQL:
			if t.isBoolExpr(x.X) {
				return f("Bool.eqb")
			}
			return f("Z.eqb")
		case token.NEQ:
			if t.isBoolExpr(x.X) {
				return "(negb " + f("Bool.eqb") + ")"
			}
			return "(negb " + f("Z.eqb") + ")"
		case token.LSS:
			return f("Z.ltb")
		case token.LEQ:
			return f("Z.leb")
		case token.GTR:
			return f("Z.gtb")
		case token.GEQ:
			return f("Z.geb")
		}
	case *ast.CallExpr:
		if len(x.Args) == 1 {
			fn := show(x.Fun)
			a := x.Args[0]
			switch fn {
			case "int", "int64", "uint64", "uint", "time.Duration", "int128":
				return t.expr(a)
			case "byte", "uint8":
				return "(Z.modulo " + t.expr(a) + " 256)"
			case "uint16":
				return "(Z.modulo " + t.expr(a) + " 65536)"
			case "uint32":
				return "(Z.modulo " + t.expr(a) + " 4294967296)"
			case "int32":
				return "(wrap_s32 " + t.expr(a) + ")"
			}
		}
		if k, ok := t.errIdx[x.Pos()]; ok {
			return fmt.Sprintf("%d", t.it.ErrBase+k)
		}
		if t.it.ErrIsFn != "" && show(x.Fun) == "errors.Is" && len(x.Args) == 2 {
			name := show(x.Args[1])
			id, ok := t.it.ErrIs[name]
			if !ok {
				h := uint32(2166136261)
				for i := 0; i < len(name); i++ {
					h = (h ^ uint32(name[i])) * 16777619
				}
				id = 1000 + int64(h%1000000)
			}
			return fmt.Sprintf("(%s %d (* %s *))", t.it.ErrIsFn, id, name)
		}
		if c, ok := t.it.Calls[show(x.Fun)]; ok {
			s := "(" + c
			fixed, variadic := t.it.VarArgs[show(x.Fun)]
			var rest []string
			for i, a := range x.Args {
				if variadic && i >= fixed {
					rest = append(rest, t.expr(a))
					continue
				}
				s += " " + t.expr(a)
			}
			if variadic {
				l := "nil"
				for i := len(rest) - 1; i >= 0; i-- {
					l = "(cons " + rest[i] + " " + l + ")"
				}
				s += " " + l
			}
			return s + ")"
		}
		if sel, ok := x.Fun.(*ast.SelectorExpr); ok {
			if f, ok := t.it.Methods[sel.Sel.Name]; ok {
				s := "(" + f + " " + t.expr(sel.X)
				for _, a := range x.Args {
					s += " " + t.expr(a)
				}
				return s + ")"
			}
		}
	}
	die("%s: expression shape not understood: %s", t.it.Func, show(e))
	return ""
}

// assigned returns the sorted list of already-declared locals assigned in stmts.
func (t *tr) assigned(stmts []ast.Stmt, acc map[string]bool) {
	for _, s := range stmts {
		switch x := s.(type) {
		case *ast.AssignStmt:
			if x.Tok != token.DEFINE {
				for _, l := range x.Lhs {
					if id, ok := t.lhsIdent(l); ok {
						acc[id.Name] = true
					}
				}
			}
		case *ast.IncDecStmt:
			if id, ok := t.lhsIdent(x.X); ok {
				acc[id.Name] = true
			}
		case *ast.IfStmt:
			t.assigned(x.Body.List, acc)
			if x.Else != nil {
				switch e := x.Else.(type) {
				case *ast.BlockStmt:
					t.assigned(e.List, acc)
				case *ast.IfStmt:
					t.assigned([]ast.Stmt{e}, acc)
				}
			}
		case *ast.BlockStmt:
			t.assigned(x.List, acc)
		case *ast.SwitchStmt:
			for _, c := range x.Body.List {
				t.assigned(c.(*ast.CaseClause).Body, acc)
			}
		}
	}
}

// returns reports whether the statement list always ends in a return.
func alwaysReturns(stmts []ast.Stmt) bool {
	if len(stmts) == 0 {
		return false
	}
	switch x := stmts[len(stmts)-1].(type) {
	case *ast.ReturnStmt:
		return true
	case *ast.IfStmt:
		if x.Else == nil {
			return false
		}
		var el []ast.Stmt
		switch e := x.Else.(type) {
		case *ast.BlockStmt:
			el = e.List
		case *ast.IfStmt:
			el = []ast.Stmt{e}
		}
		return alwaysReturns(x.Body.List) && alwaysReturns(el)
	case *ast.SwitchStmt:
		hasDefault := false
		for _, c := range x.Body.List {
			cc := c.(*ast.CaseClause)
			if cc.List == nil {
				hasDefault = true
			}
			if !alwaysReturns(cc.Body) {
				return false
			}
		}
		return hasDefault
	}
	return false
}

func containsReturn(stmts []ast.Stmt) bool {
	found := false
	for _, s := range stmts {
		ast.Inspect(s, func(n ast.Node) bool {
			if _, ok := n.(*ast.ReturnStmt); ok {
				found = true
			}
			return true
		})
	}
	return found
}

func tuple(names []string) string {
	if len(names) == 1 {
		return names[0]
	}
	return "(" + strings.Join(names, ", ") + ")"
}
func pattern(names []string) string {
	if len(names) == 1 {
		return names[0]
	}
	return "'(" + strings.Join(names, ", ") + ")"
}

// stmts translates a statement list; tail is the Coq expression to use when
// control falls off the end of the list ("" = must not fall off).
func (t *tr) stmts(list []ast.Stmt, tail string) string {
	if len(list) == 0 {
		if tail == "" {
			die("%s: control falls off the end of the function", t.it.Func)
		}
		return tail
	}
	s, rest := list[0], list[1:]
	for _, sk := range t.it.Skip {
		if show(s) == sk {
			return t.stmts(rest, tail)
		}
	}
	switch x := s.(type) {
	case *ast.ReturnStmt:
		var rs []string
		for _, r := range x.Results {
			rs = append(rs, t.expr(r))
		}
		if len(x.Results) == 0 { // bare return: the named results
			rs = append(rs, t.named...)
		}
		rs = append(rs, t.it.Also...)
		if len(rs) == 0 {
			die("%s: return without values", t.it.Func)
		}
		return tuple(rs)
	case *ast.DeclStmt:
		gd := x.Decl.(*ast.GenDecl)
		if gd.Tok != token.VAR && gd.Tok != token.CONST { // local const blocks are let-bound like vars (C35)
			die("%s: declaration not understood: %s", t.it.Func, show(s))
		}
		out := ""
		for _, sp := range gd.Specs {
			vs := sp.(*ast.ValueSpec)
			for i, n := range vs.Names {
				v := "0"
				if len(vs.Values) > i {
					v = t.expr(vs.Values[i])
				} else if vs.Type != nil && show(vs.Type) == "bool" {
					v = "false"
					t.bools[n.Name] = true
				}
				t.locals[n.Name] = true
				out += "let " + n.Name + " := " + v + " in\n  "
			}
		}
		return out + t.stmts(rest, tail)
	case *ast.AssignStmt:
		if len(x.Lhs) != len(x.Rhs) {
			die("%s: assignment not understood: %s", t.it.Func, show(s))
		}
		var names, vals []string
		for i, l := range x.Lhs {
			id, ok := t.lhsIdent(l)
			if !ok {
				die("%s: assignment target not understood: %s", t.it.Func, show(s))
			}
			r := t.expr(x.Rhs[i])
			if x.Tok != token.DEFINE && x.Tok != token.ASSIGN {
				op := map[token.Token]string{token.ADD_ASSIGN: "+", token.SUB_ASSIGN: "-", token.MUL_ASSIGN: "*"}[x.Tok]
				switch {
				case op != "":
					r = "(" + id.Name + " " + op + " " + r + ")"
				case x.Tok == token.QUO_ASSIGN:
					r = "(Z.quot " + id.Name + " " + r + ")"
				case x.Tok == token.REM_ASSIGN:
					r = "(Z.rem " + id.Name + " " + r + ")"
				case x.Tok == token.OR_ASSIGN:
					r = "(Z.lor " + id.Name + " " + r + ")"
				case x.Tok == token.AND_ASSIGN:
					r = "(Z.land " + id.Name + " " + r + ")"
				case x.Tok == token.SHL_ASSIGN:
					r = "(Z.shiftl " + id.Name + " " + r + ")"
				case x.Tok == token.SHR_ASSIGN:
					r = "(Z.shiftr " + id.Name + " " + r + ")"
				default:
					die("%s: assignment operator not understood: %s", t.it.Func, show(s))
				}
			}
			if x.Tok == token.DEFINE && t.isBoolExpr(x.Rhs[i]) {
				t.bools[id.Name] = true
			}
			names = append(names, id.Name)
			vals = append(vals, r)
		}
		for _, n := range names {
			t.locals[n] = true
		}
		return "let " + pattern(names) + " := " + tuple(vals) + " in\n  " + t.stmts(rest, tail)
	case *ast.IncDecStmt:
		id, ok := t.lhsIdent(x.X)
		if !ok {
			die("%s: inc/dec target not understood: %s", t.it.Func, show(s))
		}
		op := "+"
		if x.Tok == token.DEC {
			op = "-"
		}
		return "let " + id.Name + " := (" + id.Name + " " + op + " 1) in\n  " + t.stmts(rest, tail)
	case *ast.BlockStmt:
		return t.stmts(append(append([]ast.Stmt{}, x.List...), rest...), tail)
	case *ast.IfStmt:
		if x.Init != nil {
			return t.stmts(append([]ast.Stmt{x.Init, &ast.IfStmt{Cond: x.Cond, Body: x.Body, Else: x.Else}}, rest...), tail)
		}
		var el []ast.Stmt
		switch e := x.Else.(type) {
		case *ast.BlockStmt:
			el = e.List
		case *ast.IfStmt:
			el = []ast.Stmt{e}
		}
		c := t.expr(x.Cond)
		bodyRet, elseRet := alwaysReturns(x.Body.List), alwaysReturns(el)
		if !containsReturn(x.Body.List) && !containsReturn(el) {
			// pure state update: merge assigned variables
			acc := map[string]bool{}
			t.assigned(x.Body.List, acc)
			t.assigned(el, acc)
			var vars []string
			for v := range acc {
				if t.locals[v] {
					vars = append(vars, v)
				}
			}
			sort.Strings(vars)
			if len(vars) == 0 {
				return t.stmts(rest, tail)
			}
			saved := copyMap(t.locals)
			thn := t.stmts(x.Body.List, tuple(vars))
			t.locals = copyMap(saved)
			els := t.stmts(el, tuple(vars))
			t.locals = saved
			return "let " + pattern(vars) + " := (if " + c + " then " + thn + " else " + els + ") in\n  " + t.stmts(rest, tail)
		}
		// branches with returns: continuation duplicated into non-returning branches
		saved := copyMap(t.locals)
		cont := func(b []ast.Stmt, ret bool) string {
			t.locals = copyMap(saved)
			if ret {
				return t.stmts(b, "")
			}
			return t.stmts(append(append([]ast.Stmt{}, b...), rest...), tail)
		}
		thn := cont(x.Body.List, bodyRet)
		els := cont(el, elseRet)
		t.locals = saved
		return "(if " + c + "\n   then " + thn + "\n   else " + els + ")"
	case *ast.SwitchStmt:
		if x.Init != nil {
			die("%s: switch with init not understood", t.it.Func)
		}
		// rewrite to if-chain
		var chain ast.Stmt
		var deflt []ast.Stmt
		var clauses []*ast.CaseClause
		for _, c := range x.Body.List {
			cc := c.(*ast.CaseClause)
			for _, b := range cc.Body {
				if br, ok := b.(*ast.BranchStmt); ok && br.Tok == token.FALLTHROUGH {
					die("%s: fallthrough not understood", t.it.Func)
				}
			}
			if cc.List == nil {
				deflt = cc.Body
			} else {
				clauses = append(clauses, cc)
			}
		}
		var elseStmt ast.Stmt
		if deflt != nil {
			elseStmt = &ast.BlockStmt{List: deflt}
		}
		for i := len(clauses) - 1; i >= 0; i-- {
			cc := clauses[i]
			var cond ast.Expr
			for _, e := range cc.List {
				var one ast.Expr = e
				if x.Tag != nil {
					one = &ast.BinaryExpr{X: x.Tag, Op: token.EQL, Y: e}
				}
				if cond == nil {
					cond = one
				} else {
					cond = &ast.BinaryExpr{X: cond, Op: token.LOR, Y: one}
				}
			}
			ifs := &ast.IfStmt{Cond: cond, Body: &ast.BlockStmt{List: cc.Body}}
			if elseStmt != nil {
				ifs.Else = elseStmt
			}
			elseStmt = ifs
			chain = ifs
		}
		if chain == nil {
			return t.stmts(append(append([]ast.Stmt{}, deflt...), rest...), tail)
		}
		return t.stmts(append([]ast.Stmt{chain}, rest...), tail)
	case *ast.RangeStmt:
		// for _, e := range xs { if cond { return X } }  ==>  if existsb (fun e => cond) xs then X else <rest>
		id, okv := x.Value.(*ast.Ident)
		kid, okk := x.Key.(*ast.Ident)
		if x.Tok == token.DEFINE && okv && okk && kid.Name == "_" && len(x.Body.List) == 1 {
			if ifs, ok := x.Body.List[0].(*ast.IfStmt); ok && ifs.Init == nil && ifs.Else == nil &&
				len(ifs.Body.List) == 1 {
				if ret, ok := ifs.Body.List[0].(*ast.ReturnStmt); ok {
					xs := t.expr(x.X)
					saved := copyMap(t.locals)
					t.locals[id.Name] = true
					cond := t.expr(ifs.Cond)
					thn := t.stmts([]ast.Stmt{ret}, "")
					t.locals = saved
					return "(if List.existsb (fun " + id.Name + " => " + cond + ") " + xs + "\n   then " + thn + "\n   else " + t.stmts(rest, tail) + ")"
				}
			}
		}
		die("%s: range loop shape not understood: %s", t.it.Func, show(s))
	case *ast.ExprStmt, *ast.EmptyStmt:
		die("%s: statement not understood: %s", t.it.Func, show(s))
	}
	die("%s: statement not understood: %s", t.it.Func, show(s))
	return ""
}

func copyMap(m map[string]bool) map[string]bool {
	r := map[string]bool{}
	for k, v := range m {
		r[k] = v
	}
	return r
}

func findFunc(f *ast.File, name string) *ast.FuncDecl {
	recv, fn := "", name
	if i := strings.Index(name, "."); i >= 0 {
		recv, fn = name[:i], name[i+1:]
	}
	for _, d := range f.Decls {
		fd, ok := d.(*ast.FuncDecl)
		if !ok || fd.Name.Name != fn {
			continue
		}
		if recv == "" && fd.Recv == nil {
			return fd
		}
		if recv != "" && fd.Recv != nil && len(fd.Recv.List) == 1 {
			ty := show(fd.Recv.List[0].Type)
			if strings.TrimPrefix(ty, "*") == recv {
				return fd
			}
		}
	}
	return nil
}

func main() {
	repo := flag.String("repo", "/repo", "repository root")
	spec := flag.String("spec", "", "spec json")
	out := flag.String("out", "", "output dir (coq/Gen)")
	flag.Parse()
	raw, err := os.ReadFile(*spec)
	if err != nil {
		die("%v", err)
	}
	var outs []Output
	if err := json.Unmarshal(raw, &outs); err != nil {
		die("spec: %v", err)
	}
	constCache := map[string]*pkgConsts{}
	for _, o := range outs {
		var sb strings.Builder
		sb.WriteString("(* GENERATED by /verif/xlate from /repo on every run -- do not edit. *)\n")
		sb.WriteString("From Coq Require Import ZArith Bool.\nOpen Scope Z_scope.\n")
		for _, im := range o.Imports {
			sb.WriteString(im + "\n")
		}
		sb.WriteString("Definition wrap_s32_" + strings.TrimSuffix(filepath.Base(o.Out), ".v") + " (x : Z) : Z := ((x + 2147483648) mod 4294967296) - 2147483648.\n")
		wrapName := "wrap_s32_" + strings.TrimSuffix(filepath.Base(o.Out), ".v")
		emitted := map[string]bool{}
		for _, it := range o.Items {
			dir := filepath.Join(*repo, filepath.Dir(it.File))
			pc, ok := constCache[dir]
			if !ok {
				pc = loadConsts(dir)
				constCache[dir] = pc
			}
			emitConst := func(n string) {
				key := it.Prefix + n
				if emitted[key] {
					return
				}
				v, ok := pc.vals[n]
				if !ok {
					die("constant %s not found in %s", n, dir)
				}
				emitted[key] = true
				switch v.Kind() {
				case constant.Int:
					fmt.Fprintf(&sb, "Definition c_%s%s : Z := %s.\n", it.Prefix, n, zlit(v))
				case constant.Bool:
					fmt.Fprintf(&sb, "Definition c_%s%s : bool := %v.\n", it.Prefix, n, constant.BoolVal(v))
				case constant.String:
					// string constant -> list of its bytes (cons/nil: no notation import needed)
					str := constant.StringVal(v)
					var lb strings.Builder
					for i := 0; i < len(str); i++ {
						fmt.Fprintf(&lb, "(cons %d ", str[i])
					}
					lb.WriteString("nil")
					lb.WriteString(strings.Repeat(")", len(str)))
					fmt.Fprintf(&sb, "Definition c_%s%s : list Z := %s. (* %q *)\n", it.Prefix, n, lb.String(), str)
				default:
					die("constant %s in %s has unsupported kind", n, dir)
				}
			}
			switch it.Kind {
			case "const":
				for _, n := range it.Names {
					emitConst(n)
				}
			case "localconst":
				// constants declared with `const` inside the body of it.Func (any nesting depth)
				lf, err := parser.ParseFile(fset, filepath.Join(*repo, it.File), nil, 0)
				if err != nil {
					die("parse %s: %v", it.File, err)
				}
				lfd := findFunc(lf, it.Func)
				if lfd == nil || lfd.Body == nil {
					die("function %s not found in %s", it.Func, it.File)
				}
				found := map[string]constant.Value{}
				ast.Inspect(lfd.Body, func(n ast.Node) bool {
					gd, ok := n.(*ast.GenDecl)
					if !ok || gd.Tok != token.CONST {
						return true
					}
					for _, sp := range gd.Specs {
						vs := sp.(*ast.ValueSpec)
						for i, nm := range vs.Names {
							if i < len(vs.Values) {
								if v, ok := pc.eval(vs.Values[i], 0); ok {
									found[nm.Name] = v
								}
							}
						}
					}
					return true
				})
				for _, n := range it.Names {
					v, ok := found[n]
					if !ok || v.Kind() != constant.Int {
						die("local constant %s not found in %s of %s (shape not understood)", n, it.Func, it.File)
					}
					if !emitted[it.Prefix+n] {
						emitted[it.Prefix+n] = true
						fmt.Fprintf(&sb, "(* from %s : %s (local const) *)\nDefinition c_%s%s : Z := %s.\n", it.File, it.Func, it.Prefix, n, zlit(v))
					}
				}
			case "func":
				f, err := parser.ParseFile(fset, filepath.Join(*repo, it.File), nil, 0)
				if err != nil {
					die("parse %s: %v", it.File, err)
				}
				fd := findFunc(f, it.Func)
				if fd == nil || fd.Body == nil {
					die("function %s not found in %s", it.Func, it.File)
				}
				t := &tr{it: it, pc: pc, used: map[string]bool{}, bools: map[string]bool{}, locals: map[string]bool{}, errIdx: map[token.Pos]int{}}
				var errDoc []string
				if len(it.ErrCalls) > 0 {
					ast.Inspect(fd.Body, func(n ast.Node) bool {
						if ce, ok := n.(*ast.CallExpr); ok {
							for _, ec := range it.ErrCalls {
								if show(ce.Fun) == ec {
									t.errIdx[ce.Pos()] = len(t.errIdx) + 1
									msg := ""
									if len(ce.Args) > 0 {
										msg = strings.ReplaceAll(strings.ReplaceAll(show(ce.Args[0]), "(*", "( *"), "*)", "* )")
									}
									errDoc = append(errDoc, fmt.Sprintf("(* %s error %d = %s *)\n", it.Name, it.ErrBase+len(t.errIdx), msg))
								}
							}
						}
						return true
					})
				}
				for _, b := range it.Bools {
					t.bools[b] = true
				}
				var ps []string
				for _, p := range it.Params {
					ty := "Z"
					if it.PTypes[p] != "" {
						ty = it.PTypes[p]
					}
					if ty == "bool" {
						t.bools[p] = true
					}
					t.locals[p] = true
					ps = append(ps, "("+p+" : "+ty+")")
				}
				for _, r := range it.Rename {
					t.locals[r] = true
				}
				// named results are locals initialised to zero
				pre := ""
				if fd.Type.Results != nil {
					for _, r := range fd.Type.Results.List {
						for _, n := range r.Names {
							t.named = append(t.named, n.Name)
							t.locals[n.Name] = true
							pre += "let " + n.Name + " := 0 in\n  "
						}
					}
				}
				body := pre + t.stmts(fd.Body.List, "")
				body = strings.ReplaceAll(body, "wrap_s32", wrapName)
				var used []string
				for n := range t.used {
					used = append(used, n)
				}
				sort.Strings(used)
				for _, n := range used {
					emitConst(n)
				}
				body = prefixConsts(body, used, it.Prefix)
				ret := it.Ret
				if ret == "" {
					ret = "Z"
				}
				for _, d := range errDoc {
					sb.WriteString(d)
				}
				fmt.Fprintf(&sb, "(* from %s : %s *)\nDefinition %s %s : %s :=\n  %s.\n", it.File, it.Func, it.Name, strings.Join(ps, " "), ret, body)
			case "bytesvar", "expr":
				extItem(&sb, *repo, it, pc, emitConst, wrapName) // ext_expr.go
			case "exprarg":
				extArgItem(&sb, *repo, it, pc, emitConst, wrapName) // ext_transfer.go
			case "forsearch":
				extSearchItem(&sb, *repo, it, pc, emitConst, wrapName) // ext_transfer.go
			case "forloop":
				extTransferItem(&sb, *repo, it, pc, emitConst, wrapName) // ext_transfer.go
			case "callarg", "localvar", "locked":
				extMtItem(&sb, *repo, it, pc) // ext_mtproto.go
			case "blockops":
				extBlockOps(&sb, *repo, it) // ext_blockops.go
			case "ctxflow":
				extCtxFlow(&sb, *repo, it) // ext_blockops.go
			case "forbound":
				extForBound(&sb, *repo, it, pc) // ext_blockops.go
			case "switchtable":
				extSwitchTable(&sb, *repo, it, pc) // ext_switch.go
			default:
				die("unknown item kind %q", it.Kind)
			}
		}
		path := filepath.Join(*out, o.Out)
		old, _ := os.ReadFile(path)
		if string(old) != sb.String() {
			if err := os.MkdirAll(filepath.Dir(path), 0o755); err != nil {
				die("%v", err)
			}
			if err := os.WriteFile(path, []byte(sb.String()), 0o644); err != nil {
				die("%v", err)
			}
			fmt.Printf("xlate: wrote %s (changed)\n", path)
		}
	}
}

func prefixConsts(body string, used []string, prefix string) string {
	if prefix == "" {
		return body
	}
	for _, n := range used {
		body = strings.ReplaceAll(body, "c_"+n, "c_"+prefix+n)
	}
	return body
}
