// Extensions used by the mtproto slices (C07, C08, C41, C43):
//
//	{"kind":"callarg","file":"mtproto/conn.go","func":"proto.NewMessageIDBuf","name":"msgid_buf_size"}
//	    the single constant argument of the (unique) call of Func anywhere in File
//	    -> Definition c_<prefix><name> : Z.
//	{"kind":"localvar","file":"proto/message_id.go","func":"MessageIDBuf.Consume","names":["minID"]}
//	    the constant initial value of a `var` declared in the body of Func (zero when
//	    no initialiser) -> Definition c_<prefix><name>_init : Z.
//
//	{"kind":"locked","file":"proto/message_id.go","func":"MessageIDBuf.Consume","name":"consume_atomic",
//	 "names":["b.mux.Lock()","defer b.mux.Unlock()"]}
//	    structural guard: the body of Func must START with exactly these statements and contain
//	    no other Lock/RLock/Unlock/RUnlock call, i.e. the whole function is one critical section
//	    (the atomic-step granularity the models assume) -> Definition guard_<name> : bool := true;
//	    anything else makes the translator refuse.
//
// plus, for kind "func": assignment / inc-dec targets may be renamed expressions
// (e.g. "g.nano" -> "gnano"), `"also":[...]` appends locals to every returned tuple and a
// bare `return` returns the named results.
package main

import (
	"fmt"
	"go/ast"
	"go/constant"
	"go/parser"
	"go/token"
	"path/filepath"
	"strings"
)

// lhsIdent resolves an assignment target: a plain identifier, or an expression that the
// item's rename table maps to an identifier.
func (t *tr) lhsIdent(e ast.Expr) (*ast.Ident, bool) {
	if id, ok := e.(*ast.Ident); ok {
		return id, true
	}
	if r, ok := t.it.Rename[show(e)]; ok && token.IsIdentifier(r) {
		return &ast.Ident{Name: r}, true
	}
	return nil, false
}

func extMtItem(sb *strings.Builder, repo string, it Item, pc *pkgConsts) {
	f, err := parser.ParseFile(fset, filepath.Join(repo, it.File), nil, 0)
	if err != nil {
		die("parse %s: %v", it.File, err)
	}
	switch it.Kind {
	case "locked":
		fd := findFunc(f, it.Func)
		if fd == nil || fd.Body == nil {
			die("function %s not found in %s", it.Func, it.File)
		}
		if len(fd.Body.List) < len(it.Names) {
			die("locked: %s in %s is shorter than the expected locking prefix", it.Func, it.File)
		}
		for i, want := range it.Names {
			if got := show(fd.Body.List[i]); got != want {
				die("locked: statement %d of %s in %s is `%s`, expected `%s`: the function is no longer one critical section (shape not understood)", i, it.Func, it.File, got, want)
			}
		}
		for _, st := range fd.Body.List[len(it.Names):] {
			ast.Inspect(st, func(n ast.Node) bool {
				if ce, ok := n.(*ast.CallExpr); ok {
					if se, ok := ce.Fun.(*ast.SelectorExpr); ok {
						switch se.Sel.Name {
						case "Lock", "Unlock", "RLock", "RUnlock":
							die("locked: %s in %s calls %s after its locking prefix: not one critical section (shape not understood)", it.Func, it.File, show(ce))
						}
					}
				}
				return true
			})
		}
		fmt.Fprintf(sb, "(* from %s : %s is one critical section (%s) *)\nDefinition guard_%s%s : bool := true.\n", it.File, it.Func, strings.Join(it.Names, "; "), it.Prefix, it.Name)
	case "callarg":
		var vals []constant.Value
		ast.Inspect(f, func(n ast.Node) bool {
			ce, ok := n.(*ast.CallExpr)
			if !ok || show(ce.Fun) != it.Func {
				return true
			}
			if len(ce.Args) != 1 {
				die("callarg: call of %s in %s does not have exactly one argument (shape not understood)", it.Func, it.File)
			}
			v, ok := pc.eval(ce.Args[0], 0)
			if !ok || v.Kind() != constant.Int {
				die("callarg: argument of %s in %s is not an integer constant: %s", it.Func, it.File, show(ce.Args[0]))
			}
			vals = append(vals, v)
			return true
		})
		if len(vals) != 1 {
			die("callarg: expected exactly one call of %s in %s, found %d", it.Func, it.File, len(vals))
		}
		fmt.Fprintf(sb, "(* from %s : argument of the call %s(...) *)\nDefinition c_%s%s : Z := %s.\n", it.File, it.Func, it.Prefix, it.Name, zlit(vals[0]))
	case "localvar":
		fd := findFunc(f, it.Func)
		if fd == nil || fd.Body == nil {
			die("function %s not found in %s", it.Func, it.File)
		}
		found := map[string]constant.Value{}
		ast.Inspect(fd.Body, func(n ast.Node) bool {
			gd, ok := n.(*ast.GenDecl)
			if !ok || gd.Tok != token.VAR {
				return true
			}
			for _, sp := range gd.Specs {
				vs := sp.(*ast.ValueSpec)
				for i, nm := range vs.Names {
					if len(vs.Values) == 0 {
						found[nm.Name] = constant.MakeInt64(0)
					} else if i < len(vs.Values) {
						if v, ok := pc.eval(vs.Values[i], 0); ok {
							found[nm.Name] = v
						}
					}
				}
			}
			return true
		})
		for _, n := range it.Names {
			v, ok := found[n]
			if !ok || v.Kind() != constant.Int {
				die("local variable %s with a constant initial value not found in %s of %s (shape not understood)", n, it.Func, it.File)
			}
			fmt.Fprintf(sb, "(* from %s : %s (initial value of local var) *)\nDefinition c_%s%s_init : Z := %s.\n", it.File, it.Func, it.Prefix, n, zlit(v))
		}
	}
}
