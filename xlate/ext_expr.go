package main

// Additional item kinds (added for the transport properties C16-C19):
//
//   {"kind":"bytesvar","file":"proto/codec/abridged.go","names":["AbridgedClientStart"]}
//     package-level `var X = [n]byte{...}` (or []byte{...}) with constant elements
//     -> Definition v_X : list Z := [..].   (the output needs the List import)
//
//   {"kind":"expr","file":"proto/codec/codec.go","func":"readLen","stmt":"if n <= 0",
//    "name":"readlen_bad","params":["n"],"ret":"bool"}
//     one expression of a function that is not pure as a whole: the statement of Func whose
//     printed source starts with "stmt" must be unique; for an `if` its condition, for an
//     assignment / define its first right-hand side, for a `return` its first result, for a call
//     statement its first argument is
//     translated with the same expression translator as kind "func" (params, rename, calls).
//     If the statement disappears or becomes ambiguous the translator refuses.

import (
	"fmt"
	"go/ast"
	"go/constant"
	"go/parser"
	"go/token"
	"path/filepath"
	"sort"
	"strings"
)

func extItem(sb *strings.Builder, repo string, it Item, pc *pkgConsts, emitConst func(string), wrapName string) {
	f, err := parser.ParseFile(fset, filepath.Join(repo, it.File), nil, 0)
	if err != nil {
		die("parse %s: %v", it.File, err)
	}
	switch it.Kind {
	case "bytesvar":
		for _, name := range it.Names {
			var lit *ast.CompositeLit
			for _, d := range f.Decls {
				gd, ok := d.(*ast.GenDecl)
				if !ok || gd.Tok != token.VAR {
					continue
				}
				for _, sp := range gd.Specs {
					vs := sp.(*ast.ValueSpec)
					for i, n := range vs.Names {
						if n.Name == name && i < len(vs.Values) {
							if cl, ok := vs.Values[i].(*ast.CompositeLit); ok {
								lit = cl
							}
						}
					}
				}
			}
			if lit == nil {
				die("byte array variable %s not found in %s (shape not understood)", name, it.File)
			}
			at, ok := lit.Type.(*ast.ArrayType)
			if !ok || (show(at.Elt) != "byte" && show(at.Elt) != "uint8") {
				die("variable %s in %s is not a byte array literal", name, it.File)
			}
			var elems []string
			for _, e := range lit.Elts {
				if _, isKV := e.(*ast.KeyValueExpr); isKV {
					die("variable %s in %s: keyed elements not understood", name, it.File)
				}
				v, ok := pc.eval(e, 0)
				if !ok || v.Kind() != constant.Int {
					die("variable %s in %s: non-constant element %s", name, it.File, show(e))
				}
				iv, _ := constant.Int64Val(v)
				if iv < 0 || iv > 255 {
					die("variable %s in %s: element %d is not a byte", name, it.File, iv)
				}
				elems = append(elems, fmt.Sprintf("%d", iv))
			}
			if at.Len != nil {
				lv, ok := pc.eval(at.Len, 0)
				if _, isEll := at.Len.(*ast.Ellipsis); !isEll {
					n, _ := constant.Int64Val(lv)
					if !ok || int(n) != len(elems) {
						die("variable %s in %s: array length does not match the literal", name, it.File)
					}
				}
			}
			fmt.Fprintf(sb, "(* from %s : var %s *)\nDefinition v_%s%s : list Z := (%s)%%list.\n", it.File, name, it.Prefix, name,
				consList(elems))
		}
	case "expr":
		fd := findFunc(f, it.Func)
		if fd == nil || fd.Body == nil {
			die("function %s not found in %s", it.Func, it.File)
		}
		if it.Stmt == "" {
			die("%s: expr item needs \"stmt\"", it.Func)
		}
		var hits []ast.Stmt
		ast.Inspect(fd.Body, func(n ast.Node) bool {
			if s, ok := n.(ast.Stmt); ok {
				if _, isBlock := s.(*ast.BlockStmt); !isBlock && strings.HasPrefix(show(s), it.Stmt) {
					hits = append(hits, s)
				}
			}
			return true
		})
		if len(hits) != 1 {
			die("%s in %s: %d statements start with %q (shape not understood)", it.Func, it.File, len(hits), it.Stmt)
		}
		var e ast.Expr
		switch x := hits[0].(type) {
		case *ast.IfStmt:
			e = x.Cond
			if it.Part == "init" {
				as, ok := x.Init.(*ast.AssignStmt)
				if !ok || len(as.Rhs) < 1 {
					die("%s: `if` %q has no init assignment (shape not understood)", it.Func, it.Stmt)
				}
				e = as.Rhs[0]
			}
		case *ast.AssignStmt:
			if len(x.Rhs) < 1 {
				die("%s: assignment without right-hand side", it.Func)
			}
			e = x.Rhs[0]
		case *ast.ReturnStmt:
			if len(x.Results) < 1 {
				die("%s: return without result", it.Func)
			}
			e = x.Results[0]
		case *ast.ExprStmt:
			call, ok := x.X.(*ast.CallExpr)
			if !ok || len(call.Args) < 1 {
				die("%s: expression statement %q is not a call with arguments", it.Func, it.Stmt)
			}
			e = call.Args[0]
		default:
			die("%s in %s: statement %q is not if/assignment/return (shape not understood)", it.Func, it.File, it.Stmt)
		}
		if it.Callee != "" { // argument of a call nested anywhere in the selected statement
			var calls []*ast.CallExpr
			ast.Inspect(hits[0], func(n ast.Node) bool {
				if ce, ok := n.(*ast.CallExpr); ok && show(ce.Fun) == it.Callee {
					calls = append(calls, ce)
				}
				return true
			})
			if len(calls) != 1 || it.Arg < 0 || it.Arg >= len(calls[0].Args) {
				die("%s in %s: statement %q contains %d calls of %s with argument %d (shape not understood)", it.Func, it.File, it.Stmt, len(calls), it.Callee, it.Arg)
			}
			e = calls[0].Args[it.Arg]
		}
		t := &tr{it: it, pc: pc, used: map[string]bool{}, bools: map[string]bool{}, locals: map[string]bool{}}
		for _, b := range it.Bools {
			t.bools[b] = true
		}
		var ps []string
		for _, p := range it.Params {
			ty := "Z"
			if it.PTypes[p] != "" {
				ty = it.PTypes[p]
			}
			if ty == "bool" {
				t.bools[p] = true
			}
			t.locals[p] = true
			ps = append(ps, "("+p+" : "+ty+")")
		}
		for _, r := range it.Rename {
			t.locals[r] = true
		}
		body := strings.ReplaceAll(t.expr(e), "wrap_s32", wrapName)
		var used []string
		for n := range t.used {
			used = append(used, n)
		}
		sort.Strings(used)
		for _, n := range used {
			emitConst(n)
		}
		body = prefixConsts(body, used, it.Prefix)
		ret := it.Ret
		if ret == "" {
			ret = "Z"
		}
		fmt.Fprintf(sb, "(* from %s : %s, statement `%s...` *)\nDefinition %s %s : %s :=\n  %s.\n", it.File, it.Func, it.Stmt, it.Name, strings.Join(ps, " "), ret, body)
	}
}

func consList(elems []string) string {
	if len(elems) == 0 {
		return "nil"
	}
	return strings.Join(elems, " :: ") + " :: nil"
}
