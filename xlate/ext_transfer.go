package main

// Additions for the transfer properties (C32-C34):
//
//   * constants of another package of the repository referenced as `pkg.Name`
//     (e.g. `bigFileLimit = constant.UploadMaxSmallSize`): resolved by loading the constants of
//     the directory <repo>/<pkg> (extSelConst, called from pkgConsts.eval).
//
//   * {"kind":"forloop","file":"telegram/uploader/part.go","func":"computePartSize",
//      "name":"cps","params":["partSize","total"],"calls":{"computeParts":"compute_parts_go"}}
//     the single `for cond { body }` statement (no init/post) of a function whose other
//     statements are not pure: emits
//        Definition <name>_cond params : bool := cond.
//        Definition <name>_step params : (assigned variables, sorted) := body.
//     The hand model iterates these with fuel.  Zero or several `for` statements, or a `for`
//     with init/post/range -> the translator refuses.

import (
	"flag"
	"fmt"
	"go/ast"
	"go/constant"
	"go/parser"
	"os"
	"path/filepath"
	"sort"
	"strings"
)

var extPkgCache = map[string]*pkgConsts{}
var extPkgLoading = map[string]bool{}

// extSelConst resolves pkg.Name for packages that are top-level directories of the repository.
func extSelConst(pkg, name string) (constant.Value, bool) {
	f := flag.Lookup("repo")
	if f == nil {
		return nil, false
	}
	dir := filepath.Join(f.Value.String(), pkg)
	if st, err := os.Stat(dir); err != nil || !st.IsDir() {
		return nil, false
	}
	pc, ok := extPkgCache[dir]
	if !ok {
		if extPkgLoading[dir] {
			return nil, false
		}
		extPkgLoading[dir] = true
		pc = loadConsts(dir)
		extPkgCache[dir] = pc
		delete(extPkgLoading, dir)
	}
	v, ok := pc.vals[name]
	return v, ok
}

func extTransferItem(sb *strings.Builder, repo string, it Item, pc *pkgConsts, emitConst func(string), wrapName string) {
	f, err := parser.ParseFile(fset, filepath.Join(repo, it.File), nil, 0)
	if err != nil {
		die("parse %s: %v", it.File, err)
	}
	fd := findFunc(f, it.Func)
	if fd == nil || fd.Body == nil {
		die("function %s not found in %s", it.Func, it.File)
	}
	var loops []*ast.ForStmt
	ast.Inspect(fd.Body, func(n ast.Node) bool {
		switch x := n.(type) {
		case *ast.ForStmt:
			loops = append(loops, x)
		case *ast.RangeStmt:
			die("%s in %s: range loop (shape not understood)", it.Func, it.File)
		}
		return true
	})
	if len(loops) != 1 || loops[0].Init != nil || loops[0].Post != nil || loops[0].Cond == nil {
		die("%s in %s: expected exactly one `for cond { ... }` loop (shape not understood)", it.Func, it.File)
	}
	loop := loops[0]
	t := &tr{it: it, pc: pc, used: map[string]bool{}, bools: map[string]bool{}, locals: map[string]bool{}}
	for _, b := range it.Bools {
		t.bools[b] = true
	}
	var ps []string
	for _, p := range it.Params {
		ty := "Z"
		if it.PTypes[p] != "" {
			ty = it.PTypes[p]
		}
		if ty == "bool" {
			t.bools[p] = true
		}
		t.locals[p] = true
		ps = append(ps, "("+p+" : "+ty+")")
	}
	for _, r := range it.Rename {
		t.locals[r] = true
	}
	cond := t.expr(loop.Cond)
	acc := map[string]bool{}
	t.assigned(loop.Body.List, acc)
	var vars []string
	for v := range acc {
		if !t.locals[v] {
			die("%s in %s: loop assigns %s which is not a declared parameter of the item", it.Func, it.File, v)
		}
		vars = append(vars, v)
	}
	sort.Strings(vars)
	if len(vars) == 0 || containsReturn(loop.Body.List) {
		die("%s in %s: loop body must be a pure state update without return (shape not understood)", it.Func, it.File)
	}
	ast.Inspect(loop.Body, func(n ast.Node) bool {
		if _, ok := n.(*ast.BranchStmt); ok {
			die("%s in %s: break/continue in loop body (shape not understood)", it.Func, it.File)
		}
		return true
	})
	step := t.stmts(loop.Body.List, tuple(vars))
	var used []string
	for n := range t.used {
		used = append(used, n)
	}
	sort.Strings(used)
	for _, n := range used {
		emitConst(n)
	}
	fix := func(s string) string {
		return prefixConsts(strings.ReplaceAll(s, "wrap_s32", wrapName), used, it.Prefix)
	}
	rty := "Z"
	if len(vars) > 1 {
		rty = "(" + strings.Repeat("Z * ", len(vars)-1) + "Z)%type"
	}
	fmt.Fprintf(sb, "(* from %s : %s, loop condition *)\nDefinition %s_cond %s : bool :=\n  %s.\n", it.File, it.Func, it.Name, strings.Join(ps, " "), fix(cond))
	fmt.Fprintf(sb, "(* from %s : %s, loop body: new value of %s *)\nDefinition %s_step %s : %s :=\n  %s.\n", it.File, it.Func, strings.Join(vars, ", "), it.Name, strings.Join(ps, " "), rty, fix(step))
}

// {"kind":"forsearch","file":"telegram/downloader/cdn_plan.go","func":"largestCDNValidLimit",
//  "name":"lcv","params":["size","max"]}
//   a function of the shape
//       for v := INIT; COND; POST { if FOUND { return RESULT } }
//       return DEFAULT
//   emits <name>_init, <name>_cond, <name>_found, <name>_result, <name>_post (new value of the loop
//   variable) and <name>_default; the hand model iterates them with fuel. The loop variable must be
//   the first parameter of the item. Any other shape -> the translator refuses.
func extSearchItem(sb *strings.Builder, repo string, it Item, pc *pkgConsts, emitConst func(string), wrapName string) {
	f, err := parser.ParseFile(fset, filepath.Join(repo, it.File), nil, 0)
	if err != nil {
		die("parse %s: %v", it.File, err)
	}
	fd := findFunc(f, it.Func)
	if fd == nil || fd.Body == nil || len(fd.Body.List) != 2 {
		die("%s in %s: expected `for ... { if c { return e } }; return d` (shape not understood)", it.Func, it.File)
	}
	loop, ok1 := fd.Body.List[0].(*ast.ForStmt)
	ret, ok2 := fd.Body.List[1].(*ast.ReturnStmt)
	if !ok1 || !ok2 || loop.Init == nil || loop.Cond == nil || loop.Post == nil || len(loop.Body.List) != 1 || len(ret.Results) != 1 {
		die("%s in %s: expected `for init; cond; post { if c { return e } }; return d` (shape not understood)", it.Func, it.File)
	}
	ifs, ok := loop.Body.List[0].(*ast.IfStmt)
	if !ok || ifs.Init != nil || ifs.Else != nil || len(ifs.Body.List) != 1 {
		die("%s in %s: loop body must be a single `if c { return e }` (shape not understood)", it.Func, it.File)
	}
	inner, ok := ifs.Body.List[0].(*ast.ReturnStmt)
	if !ok || len(inner.Results) != 1 {
		die("%s in %s: loop body must be a single `if c { return e }` (shape not understood)", it.Func, it.File)
	}
	init, ok := loop.Init.(*ast.AssignStmt)
	if !ok || len(init.Lhs) != 1 || len(init.Rhs) != 1 || len(it.Params) == 0 || show(init.Lhs[0]) != it.Params[0] {
		die("%s in %s: loop init must define the first item parameter (shape not understood)", it.Func, it.File)
	}
	t := &tr{it: it, pc: pc, used: map[string]bool{}, bools: map[string]bool{}, locals: map[string]bool{}}
	var ps []string
	for _, p := range it.Params {
		t.locals[p] = true
		ps = append(ps, "("+p+" : Z)")
	}
	initE := t.expr(init.Rhs[0])
	cond := t.expr(loop.Cond)
	found := t.expr(ifs.Cond)
	result := t.expr(inner.Results[0])
	post := t.stmts([]ast.Stmt{loop.Post}, it.Params[0])
	deflt := t.expr(ret.Results[0])
	var used []string
	for n := range t.used {
		used = append(used, n)
	}
	sort.Strings(used)
	for _, n := range used {
		emitConst(n)
	}
	fix := func(s string) string {
		return prefixConsts(strings.ReplaceAll(s, "wrap_s32", wrapName), used, it.Prefix)
	}
	args := strings.Join(ps, " ")
	fmt.Fprintf(sb, "(* from %s : %s, search loop *)\n", it.File, it.Func)
	fmt.Fprintf(sb, "Definition %s_init %s : Z :=\n  %s.\n", it.Name, args, fix(initE))
	fmt.Fprintf(sb, "Definition %s_cond %s : bool :=\n  %s.\n", it.Name, args, fix(cond))
	fmt.Fprintf(sb, "Definition %s_found %s : bool :=\n  %s.\n", it.Name, args, fix(found))
	fmt.Fprintf(sb, "Definition %s_result %s : Z :=\n  %s.\n", it.Name, args, fix(result))
	fmt.Fprintf(sb, "Definition %s_post %s : Z :=\n  %s.\n", it.Name, args, fix(post))
	fmt.Fprintf(sb, "Definition %s_default %s : Z :=\n  %s.\n", it.Name, args, fix(deflt))
}

// {"kind":"exprarg","file":"...","func":"cdn.decrypt","stmt":"binary.BigEndian.PutUint32(","part":"1",
//  "name":"ctr_low32","params":["offset"],"ret":"Z"}
//   like kind "expr" for a call statement, but translates argument number "part" (0-based).
func extArgItem(sb *strings.Builder, repo string, it Item, pc *pkgConsts, emitConst func(string), wrapName string) {
	f, err := parser.ParseFile(fset, filepath.Join(repo, it.File), nil, 0)
	if err != nil {
		die("parse %s: %v", it.File, err)
	}
	fd := findFunc(f, it.Func)
	if fd == nil || fd.Body == nil {
		die("function %s not found in %s", it.Func, it.File)
	}
	var hits []*ast.CallExpr
	ast.Inspect(fd.Body, func(n ast.Node) bool {
		if s, ok := n.(*ast.ExprStmt); ok && strings.HasPrefix(show(s), it.Stmt) {
			if c, ok := s.X.(*ast.CallExpr); ok {
				hits = append(hits, c)
			}
		}
		return true
	})
	idx := 0
	fmt.Sscanf(it.Part, "%d", &idx)
	if len(hits) != 1 || idx >= len(hits[0].Args) {
		die("%s in %s: %d call statements start with %q (shape not understood)", it.Func, it.File, len(hits), it.Stmt)
	}
	t := &tr{it: it, pc: pc, used: map[string]bool{}, bools: map[string]bool{}, locals: map[string]bool{}}
	var ps []string
	for _, p := range it.Params {
		t.locals[p] = true
		ps = append(ps, "("+p+" : Z)")
	}
	body := strings.ReplaceAll(t.expr(hits[0].Args[idx]), "wrap_s32", wrapName)
	var used []string
	for n := range t.used {
		used = append(used, n)
	}
	sort.Strings(used)
	for _, n := range used {
		emitConst(n)
	}
	ret := it.Ret
	if ret == "" {
		ret = "Z"
	}
	fmt.Fprintf(sb, "(* from %s : %s, argument %d of `%s...` *)\nDefinition %s %s : %s :=\n  %s.\n", it.File, it.Func, idx, it.Stmt, it.Name, strings.Join(ps, " "), ret, prefixConsts(body, used, it.Prefix))
}
