package main

// Additions for the transfer properties (C32-C34):
//
//   * constants of another package of the repository referenced as `pkg.Name`
//     (e.g. `bigFileLimit = constant.UploadMaxSmallSize`): resolved by loading the constants of
//     the directory <repo>/<pkg> (extSelConst, called from pkgConsts.eval).
//
//   * {"kind":"forloop","file":"telegram/uploader/part.go","func":"computePartSize",
//      "name":"cps","params":["partSize","total"],"calls":{"computeParts":"compute_parts_go"}}
//     the single `for cond { body }` statement (no init/post) of a function whose other
//     statements are not pure: emits
//        Definition <name>_cond params : bool := cond.
//        Definition <name>_step params : (assigned variables, sorted) := body.
//     The hand model iterates these with fuel.  Zero or several `for` statements, or a `for`
//     with init/post/range -> the translator refuses.

import (
	"flag"
	"fmt"
	"go/ast"
	"go/constant"
	"go/parser"
	"os"
	"path/filepath"
	"sort"
	"strings"
)

var extPkgCache = map[string]*pkgConsts{}
var extPkgLoading = map[string]bool{}

// extSelConst resolves pkg.Name for packages that are top-level directories of the repository.
func extSelConst(pkg, name string) (constant.Value, bool) {
	f := flag.Lookup("repo")
	if f == nil {
		return nil, false
	}
	dir := filepath.Join(f.Value.String(), pkg)
	if st, err := os.Stat(dir); err != nil || !st.IsDir() {
		return nil, false
	}
	pc, ok := extPkgCache[dir]
	if !ok {
		if extPkgLoading[dir] {
			return nil, false
		}
		extPkgLoading[dir] = true
		pc = loadConsts(dir)
		extPkgCache[dir] = pc
		delete(extPkgLoading, dir)
	}
	v, ok := pc.vals[name]
	return v, ok
}

func extTransferItem(sb *strings.Builder, repo string, it Item, pc *pkgConsts, emitConst func(string), wrapName string) {
	f, err := parser.ParseFile(fset, filepath.Join(repo, it.File), nil, 0)
	if err != nil {
		die("parse %s: %v", it.File, err)
	}
	fd := findFunc(f, it.Func)
	if fd == nil || fd.Body == nil {
		die("function %s not found in %s", it.Func, it.File)
	}
	var loops []*ast.ForStmt
	ast.Inspect(fd.Body, func(n ast.Node) bool {
		switch x := n.(type) {
		case *ast.ForStmt:
			loops = append(loops, x)
		case *ast.RangeStmt:
			die("%s in %s: range loop (shape not understood)", it.Func, it.File)
		}
		return true
	})
	if len(loops) != 1 || loops[0].Init != nil || loops[0].Post != nil || loops[0].Cond == nil {
		die("%s in %s: expected exactly one `for cond { ... }` loop (shape not understood)", it.Func, it.File)
	}
	loop := loops[0]
	t := &tr{it: it, pc: pc, used: map[string]bool{}, bools: map[string]bool{}, locals: map[string]bool{}}
	for _, b := range it.Bools {
		t.bools[b] = true
	}
	var ps []string
	for _, p := range it.Params {
		ty := "Z"
		if it.PTypes[p] != "" {
			ty = it.PTypes[p]
		}
		if ty == "bool" {
			t.bools[p] = true
		}
		t.locals[p] = true
		ps = append(ps, "("+p+" : "+ty+")")
	}
	for _, r := range it.Rename {
		t.locals[r] = true
	}
	cond := t.expr(loop.Cond)
	acc := map[string]bool{}
	t.assigned(loop.Body.List, acc)
	var vars []string
	for v := range acc {
		if !t.locals[v] {
			die("%s in %s: loop assigns %s which is not a declared parameter of the item", it.Func, it.File, v)
		}
		vars = append(vars, v)
	}
	sort.Strings(vars)
	if len(vars) == 0 || containsReturn(loop.Body.List) {
		die("%s in %s: loop body must be a pure state update without return (shape not understood)", it.Func, it.File)
	}
	ast.Inspect(loop.Body, func(n ast.Node) bool {
		if _, ok := n.(*ast.BranchStmt); ok {
			die("%s in %s: break/continue in loop body (shape not understood)", it.Func, it.File)
		}
		return true
	})
	step := t.stmts(loop.Body.List, tuple(vars))
	var used []string
	for n := range t.used {
		used = append(used, n)
	}
	sort.Strings(used)
	for _, n := range used {
		emitConst(n)
	}
	fix := func(s string) string {
		return prefixConsts(strings.ReplaceAll(s, "wrap_s32", wrapName), used, it.Prefix)
	}
	rty := "Z"
	if len(vars) > 1 {
		rty = "(" + strings.Repeat("Z * ", len(vars)-1) + "Z)%type"
	}
	fmt.Fprintf(sb, "(* from %s : %s, loop condition *)\nDefinition %s_cond %s : bool :=\n  %s.\n", it.File, it.Func, it.Name, strings.Join(ps, " "), fix(cond))
	fmt.Fprintf(sb, "(* from %s : %s, loop body: new value of %s *)\nDefinition %s_step %s : %s :=\n  %s.\n", it.File, it.Func, strings.Join(vars, ", "), it.Name, strings.Join(ps, " "), rty, fix(step))
}
