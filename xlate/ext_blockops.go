// ext_blockops.go (b-exchange, C12): item kind "blockops".
//
// Lists, in source order, every blocking transport operation performed by one function
// (exchange.ClientExchange.Run) and whether the operation is bounded by the per-request
// exchange timeout, i.e. whether it reaches conn.Send / conn.Recv only through a context
// produced by `context.WithTimeout(ctx, <recv>.timeout)`.
//
//   {"kind":"blockops","file":"exchange/client_flow.go","func":"ClientExchange.Run",
//    "name":"client_steps","helpers":"exchange/proto.go"}
//
// Emits  Definition client_steps : list (Z * bool * bool) := [(dir, bounded, restart); ...]  with
// dir 0 = send, 1 = receive; restart = a fresh timeout is armed per loop iteration on peer input.  Helper methods (file "helpers") are classified by a fixpoint: a method is
// blocking if it calls conn.Send/conn.Recv or a blocking method; it is bounded if every such
// call happens after `ctx, cancel := context.WithTimeout(ctx, w.timeout)` in the same body
// (and passes that ctx), or is a call of a bounded method.
package main

import (
	"fmt"
	"go/ast"
	"go/parser"
	"go/token"
	"path/filepath"
	"sort"
	"strings"
)

type blkOp struct {
	pos     token.Pos
	dir     int // 0 send, 1 recv, 2 both/unknown
	bounded bool
	// restart: the operation sits in a loop that re-arms a fresh timeout on every iteration driven by
	// peer input (e.g. skipping transport errors), so the STEP is bounded by (n+1)*timeout, not timeout
	restart bool
	via     string
}

// timeoutCtxPositions returns the positions at which `ctx` is rebound to
// context.WithTimeout(ctx, X.timeout) in body.
func timeoutCtxPositions(body *ast.BlockStmt) []token.Pos {
	var ps []token.Pos
	// only UNCONDITIONAL rebinding counts: a statement directly in the function body (a timeout that
	// is applied under an `if` does not bound the operation in every configuration)
	for _, st := range body.List {
		as, ok := st.(*ast.AssignStmt)
		if !ok || len(as.Rhs) != 1 || len(as.Lhs) != 2 {
			continue
		}
		if id, ok := as.Lhs[0].(*ast.Ident); !ok || id.Name != "ctx" {
			continue
		}
		call, ok := as.Rhs[0].(*ast.CallExpr)
		if !ok || show(call.Fun) != "context.WithTimeout" || len(call.Args) != 2 {
			continue
		}
		if show(call.Args[0]) != "ctx" || !strings.HasSuffix(show(call.Args[1]), ".timeout") {
			continue
		}
		ps = append(ps, as.End())
	}
	return ps
}

type helperInfo struct {
	blocking bool
	bounded  bool
	restart  bool
	dir      int
}

// calls that may receive ctx without being transport operations
var ctxAllow = []string{"context.", ".log.", "log."}

func connDir(name string) (int, bool) {
	switch {
	case strings.HasSuffix(name, ".conn.Send"):
		return 0, true
	case strings.HasSuffix(name, ".conn.Recv"):
		return 1, true
	}
	return 0, false
}

// scanBody lists the blocking operations of body in source order. It refuses (die) when the body
// hands ctx to a call it cannot classify, or aliases the connection, because such a call could block
// without becoming a table row.
func scanBody(owner string, body *ast.BlockStmt, helpers map[string]helperInfo, strict bool) []blkOp {
	tps := timeoutCtxPositions(body)
	type span struct{ from, to token.Pos }
	var loops []span
	ast.Inspect(body, func(n ast.Node) bool {
		switch x := n.(type) {
		case *ast.ForStmt:
			loops = append(loops, span{x.Body.Pos(), x.Body.End()})
		case *ast.RangeStmt:
			loops = append(loops, span{x.Body.Pos(), x.Body.End()})
		case *ast.AssignStmt:
			for _, r := range x.Rhs {
				if strict && strings.HasSuffix(show(r), ".conn") {
					die("%s: the connection is aliased (%s): blocking calls can no longer be listed by name", owner, show(x))
				}
			}
		}
		return true
	})
	inLoop := func(p token.Pos) bool {
		for _, l := range loops {
			if l.from <= p && p < l.to {
				return true
			}
		}
		return false
	}
	var ops []blkOp
	ast.Inspect(body, func(n ast.Node) bool {
		call, ok := n.(*ast.CallExpr)
		if !ok {
			return true
		}
		name := show(call.Fun)
		if dir, ok := connDir(name); ok {
			b := false
			if len(call.Args) > 0 && show(call.Args[0]) == "ctx" {
				for _, p := range tps {
					if p < call.Pos() {
						b = true
					}
				}
			}
			// a direct call under a timeout established once outside the loop keeps ONE deadline
			ops = append(ops, blkOp{call.Pos(), dir, b, false, name})
			return true
		}
		if sel, ok := call.Fun.(*ast.SelectorExpr); ok {
			if h, ok := helpers[sel.Sel.Name]; ok && h.blocking {
				if _, isIdent := sel.X.(*ast.Ident); isIdent {
					// a bounded helper called from inside a loop gets a fresh timeout per iteration
					ops = append(ops, blkOp{call.Pos(), h.dir, h.bounded, h.restart || (h.bounded && inLoop(call.Pos())), name})
					return true
				}
			}
		}
		if strict {
			passesCtx := false
			for _, a := range call.Args {
				if show(a) == "ctx" {
					passesCtx = true
				}
			}
			if passesCtx {
				allowed := false
				for _, pre := range ctxAllow {
					if strings.HasPrefix(name, pre) || strings.Contains(name, pre) {
						allowed = true
					}
				}
				if !allowed {
					die("%s: call %s receives ctx but is neither a known transport operation nor a timeout helper (shape not understood)", owner, name)
				}
			}
		}
		return true
	})
	sort.Slice(ops, func(i, j int) bool { return ops[i].pos < ops[j].pos })
	return ops
}

func extBlockOps(sb *strings.Builder, repo string, it Item) {
	helpersFile := it.Stmt // reuse: "stmt" holds the helper file when "helpers" is not available
	if it.Part != "" {
		helpersFile = it.Part
	}
	hf, err := parser.ParseFile(fset, filepath.Join(repo, helpersFile), nil, 0)
	if err != nil {
		die("parse %s: %v", helpersFile, err)
	}
	helpers := map[string]helperInfo{}
	var decls []*ast.FuncDecl
	for _, d := range hf.Decls {
		if fd, ok := d.(*ast.FuncDecl); ok && fd.Recv != nil && fd.Body != nil {
			decls = append(decls, fd)
		}
	}
	// fixpoint over helper methods
	for round := 0; round < len(decls)+2; round++ {
		for _, fd := range decls {
			ops := scanBody(fd.Name.Name, fd.Body, helpers, round > len(decls))
			if len(ops) == 0 {
				continue
			}
			h := helperInfo{blocking: true, bounded: true, dir: ops[0].dir}
			for _, o := range ops {
				if !o.bounded {
					h.bounded = false
				}
				if o.restart {
					h.restart = true
				}
				if o.dir != h.dir {
					h.dir = 2
				}
			}
			helpers[fd.Name.Name] = h
		}
	}
	f, err := parser.ParseFile(fset, filepath.Join(repo, it.File), nil, 0)
	if err != nil {
		die("parse %s: %v", it.File, err)
	}
	fd := findFunc(f, it.Func)
	if fd == nil || fd.Body == nil {
		die("function %s not found in %s", it.Func, it.File)
	}
	ops := scanBody(it.Func, fd.Body, helpers, true)
	if len(ops) == 0 {
		die("%s: no blocking operation found (shape not understood)", it.Func)
	}
	var hs []string
	for n, h := range helpers {
		hs = append(hs, fmt.Sprintf("%s(dir=%d,bounded=%v,restart=%v)", n, h.dir, h.bounded, h.restart))
	}
	sort.Strings(hs)
	fmt.Fprintf(sb, "(* blocking helpers in %s: %s *)\n", helpersFile, strings.Join(hs, " "))
	var items []string
	for i, o := range ops {
		if o.dir == 2 {
			die("%s: operation %s both sends and receives (shape not understood)", it.Func, o.via)
		}
		fmt.Fprintf(sb, "(* %s op %d: %s at line %d: dir=%d bounded=%v restart=%v *)\n", it.Name, i+1, o.via, fset.Position(o.pos).Line, o.dir, o.bounded, o.restart)
		items = append(items, fmt.Sprintf("(%d, %v, %v)", o.dir, o.bounded, o.restart))
	}
	fmt.Fprintf(sb, "(* from %s : %s *)\nDefinition %s : list (Z * bool * bool) := (%s)%%list.\n", it.File, it.Func, it.Name,
		"cons "+strings.Join(items, " (cons ")+" nil"+strings.Repeat(")", len(items)-1))
}

// ---------------------------------------------------------------------------------------------
// item kind "ctxflow" (C12): which context reaches a callee.
//
//   {"kind":"ctxflow","file":"mtproto/connect.go","func":"Conn.connect","name":"connect_nonpfs",
//    "stmt":"createAuthKey"}
//
// Finds the single call `<recv>.<stmt>(X)` in Func and classifies X:
//   0  X is the function's own context parameter, never rebound            (caller's deadline only)
//   1  X := / = context.WithTimeout(<param>, <recv>.dialTimeout) unconditionally in the body
//   2  X is so rebound only inside `if !<recv>.pfs { ... }`                 (dial timeout iff not PFS)
// Anything else -> the translator refuses. Emits  Definition c_ctx_<name> : Z := code.
func extCtxFlow(sb *strings.Builder, repo string, it Item) {
	f, err := parser.ParseFile(fset, filepath.Join(repo, it.File), nil, 0)
	if err != nil {
		die("parse %s: %v", it.File, err)
	}
	fd := findFunc(f, it.Func)
	if fd == nil || fd.Body == nil {
		die("function %s not found in %s", it.Func, it.File)
	}
	param := ""
	for _, p := range fd.Type.Params.List {
		if show(p.Type) == "context.Context" && len(p.Names) == 1 {
			param = p.Names[0].Name
		}
	}
	if param == "" {
		die("%s: no context parameter", it.Func)
	}
	var arg string
	n := 0
	ast.Inspect(fd.Body, func(nd ast.Node) bool {
		if call, ok := nd.(*ast.CallExpr); ok {
			if sel, ok := call.Fun.(*ast.SelectorExpr); ok && sel.Sel.Name == it.Stmt && len(call.Args) >= 1 {
				arg = show(call.Args[0])
				n++
			}
		}
		return true
	})
	if n != 1 {
		die("%s: expected exactly one call of %s, found %d", it.Func, it.Stmt, n)
	}
	isDialTimeout := func(e ast.Expr) bool {
		call, ok := e.(*ast.CallExpr)
		return ok && show(call.Fun) == "context.WithTimeout" && len(call.Args) == 2 &&
			show(call.Args[0]) == param && strings.HasSuffix(show(call.Args[1]), ".dialTimeout")
	}
	rebinds := func(st ast.Stmt) (bool, bool) { // (rebinds arg with the dial timeout, rebinds arg with something else)
		as, ok := st.(*ast.AssignStmt)
		if !ok || len(as.Lhs) == 0 || show(as.Lhs[0]) != arg || len(as.Rhs) != 1 {
			return false, false
		}
		if isDialTimeout(as.Rhs[0]) {
			return true, false
		}
		if show(as.Rhs[0]) == param { // plain alias `connectCtx := ctx`
			return false, false
		}
		return false, true
	}
	code := 0
	other := false
	for _, st := range fd.Body.List {
		if d, o := rebinds(st); d {
			code = 1
		} else if o {
			other = true
		}
		if ifs, ok := st.(*ast.IfStmt); ok {
			inner := false
			ast.Inspect(ifs.Body, func(nd ast.Node) bool {
				if s2, ok := nd.(ast.Stmt); ok {
					if d, o := rebinds(s2); d {
						inner = true
					} else if o {
						other = true
					}
				}
				return true
			})
			if inner {
				if strings.HasSuffix(show(ifs.Cond), ".pfs") && strings.HasPrefix(show(ifs.Cond), "!") && ifs.Else == nil {
					if code == 0 {
						code = 2
					}
				} else {
					die("%s: %s is rebound under a condition that is not `!<recv>.pfs` (%s): shape not understood", it.Func, arg, show(ifs.Cond))
				}
			}
		}
	}
	if other {
		die("%s: %s is rebound by something other than the dial timeout: shape not understood", it.Func, arg)
	}
	if arg != param && code == 0 {
		// an alias of the parameter that is never rebound behaves like the parameter
		aliased := false
		for _, st := range fd.Body.List {
			if as, ok := st.(*ast.AssignStmt); ok && len(as.Lhs) == 1 && show(as.Lhs[0]) == arg && len(as.Rhs) == 1 && show(as.Rhs[0]) == param {
				aliased = true
			}
		}
		if !aliased {
			die("%s: cannot tell where context %s comes from", it.Func, arg)
		}
	}
	fmt.Fprintf(sb, "(* from %s : %s passes %s to %s *)\nDefinition c_ctx_%s : Z := %d.\n", it.File, it.Func, arg, it.Stmt, it.Name, code)
}

// ---------------------------------------------------------------------------------------------
// item kind "forbound" (C11): bounds of the single counting loop `for i := A; i < B; i++` of Func,
// plus standard-library size constants that the function must mention textually.
//
//   {"kind":"forbound","file":"crypto/data_with_hash.go","func":"GuessDataWithHash","name":"guess",
//    "names":["sha1.Size"]}
//
// Emits  Definition c_<name>_from : Z := A.   Definition c_<name>_to : Z := B.
//        Definition c_sha1_Size : Z := 20.    (for each listed name, "." -> "_")
func extForBound(sb *strings.Builder, repo string, it Item, pc *pkgConsts) {
	f, err := parser.ParseFile(fset, filepath.Join(repo, it.File), nil, 0)
	if err != nil {
		die("parse %s: %v", it.File, err)
	}
	fd := findFunc(f, it.Func)
	if fd == nil || fd.Body == nil {
		die("function %s not found in %s", it.Func, it.File)
	}
	var loops []*ast.ForStmt
	ast.Inspect(fd.Body, func(n ast.Node) bool {
		if fs, ok := n.(*ast.ForStmt); ok {
			loops = append(loops, fs)
		}
		return true
	})
	if len(loops) != 1 {
		die("%s: expected exactly one for loop, found %d", it.Func, len(loops))
	}
	fs := loops[0]
	init, ok1 := fs.Init.(*ast.AssignStmt)
	cond, ok2 := fs.Cond.(*ast.BinaryExpr)
	post, ok3 := fs.Post.(*ast.IncDecStmt)
	if !ok1 || !ok2 || !ok3 || init.Tok != token.DEFINE || len(init.Lhs) != 1 || len(init.Rhs) != 1 ||
		cond.Op != token.LSS || post.Tok != token.INC || show(cond.X) != show(init.Lhs[0]) || show(post.X) != show(init.Lhs[0]) {
		die("%s: loop is not of the form `for i := A; i < B; i++` (shape not understood): %s", it.Func, show(fs.Init)+"; "+show(fs.Cond)+"; "+show(fs.Post))
	}
	from, okf := pc.eval(init.Rhs[0], 0)
	to, okt := pc.eval(cond.Y, 0)
	if !okf || !okt {
		die("%s: loop bounds are not constants", it.Func)
	}
	fmt.Fprintf(sb, "(* from %s : %s : for %s; %s; %s *)\nDefinition c_%s_from : Z := %s.\nDefinition c_%s_to : Z := %s.\n",
		it.File, it.Func, show(fs.Init), show(fs.Cond), show(fs.Post), it.Name, zlit(from), it.Name, zlit(to))
	src := show(fd.Body)
	for _, n := range it.Names {
		if !strings.Contains(src, n) {
			die("%s: no longer mentions %s", it.Func, n)
		}
		parts := strings.SplitN(n, ".", 2)
		if len(parts) != 2 {
			die("forbound: %s is not pkg.Name", n)
		}
		v, ok := pc.eval(&ast.SelectorExpr{X: ast.NewIdent(parts[0]), Sel: ast.NewIdent(parts[1])}, 0)
		if !ok {
			die("forbound: constant %s unknown to the translator", n)
		}
		fmt.Fprintf(sb, "Definition c_%s : Z := %s.\n", strings.ReplaceAll(n, ".", "_"), zlit(v))
	}
}
