// Extension used by C23 (b-schema):
//
//	{"kind":"switchtable","file":"mtproto/handle_message.go","func":"Conn.handleMessage",
//	 "name":"handle_dispatch","stmt":"id","pkgs":{"mt":"mt","proto":"proto"}}
//
// The (unique) `switch <stmt> { ... }` statement in the body of Func whose every clause is a
// list of integer constants (possibly qualified: pkg.Name, resolved in the directory that
// "pkgs" gives for pkg) and whose body is a single `return <call or nil>` is translated to
//
//	Inductive <name>_target := T_<callee> | ... | T_nil.
//	Definition <name> (id : Z) : <name>_target := if id =? <v1> then T_<callee1> else ... <default>.
//
// where <callee> is the selector path of the called function without the receiver
// (c.handleAck(b) -> handleAck, c.handler.OnMessage(b) -> handler_OnMessage). Clauses that
// return the same callee share a constructor. Any other shape makes the translator fail.
package main

import (
	"fmt"
	"go/ast"
	"go/constant"
	"go/parser"
	"path/filepath"
	"strings"
)

func extSwitchTable(sb *strings.Builder, repo string, it Item, pc *pkgConsts) {
	f, err := parser.ParseFile(fset, filepath.Join(repo, it.File), nil, 0)
	if err != nil {
		die("parse %s: %v", it.File, err)
	}
	fd := findFunc(f, it.Func)
	if fd == nil || fd.Body == nil {
		die("function %s not found in %s", it.Func, it.File)
	}
	var sws []*ast.SwitchStmt
	ast.Inspect(fd.Body, func(n ast.Node) bool {
		if sw, ok := n.(*ast.SwitchStmt); ok && sw.Tag != nil && show(sw.Tag) == it.Stmt {
			sws = append(sws, sw)
		}
		return true
	})
	if len(sws) != 1 {
		die("switchtable: %d `switch %s` statements in %s of %s (shape not understood)", len(sws), it.Stmt, it.Func, it.File)
	}
	pkgCache := map[string]*pkgConsts{}
	resolve := func(e ast.Expr) constant.Value {
		if se, ok := e.(*ast.SelectorExpr); ok {
			if x, ok := se.X.(*ast.Ident); ok {
				dir, ok := it.Pkgs[x.Name]
				if !ok {
					die("switchtable: package %s of %s not listed in pkgs", x.Name, show(e))
				}
				p := pkgCache[dir]
				if p == nil {
					p = loadConsts(filepath.Join(repo, dir))
					pkgCache[dir] = p
				}
				v, ok := p.vals[se.Sel.Name]
				if !ok || v.Kind() != constant.Int {
					die("switchtable: constant %s not found in %s", show(e), dir)
				}
				return v
			}
		}
		v, ok := pc.eval(e, 0)
		if !ok || v.Kind() != constant.Int {
			die("switchtable: case expression %s is not an integer constant (shape not understood)", show(e))
		}
		return v
	}
	target := func(body []ast.Stmt, where string) string {
		if len(body) != 1 {
			die("switchtable: clause %s does not consist of a single return (shape not understood)", where)
		}
		rs, ok := body[0].(*ast.ReturnStmt)
		if !ok || len(rs.Results) != 1 {
			die("switchtable: clause %s does not consist of a single return (shape not understood)", where)
		}
		if id, ok := rs.Results[0].(*ast.Ident); ok && id.Name == "nil" {
			return "nil"
		}
		ce, ok := rs.Results[0].(*ast.CallExpr)
		if !ok {
			die("switchtable: clause %s returns %s (shape not understood)", where, show(rs.Results[0]))
		}
		parts := strings.Split(show(ce.Fun), ".")
		if len(parts) < 2 {
			die("switchtable: clause %s calls %s (shape not understood)", where, show(ce.Fun))
		}
		return strings.Join(parts[1:], "_")
	}
	var order []string
	seen := map[string]bool{}
	add := func(t string) {
		if !seen[t] {
			seen[t] = true
			order = append(order, t)
		}
	}
	type arm struct {
		val, name, tgt string
	}
	var arms []arm
	def := ""
	for _, st := range sws[0].Body.List {
		cc := st.(*ast.CaseClause)
		if cc.List == nil {
			def = target(cc.Body, "default")
			continue
		}
		t := target(cc.Body, show(cc.List[0]))
		add(t)
		for _, e := range cc.List {
			arms = append(arms, arm{zlit(resolve(e)), show(e), t})
		}
	}
	if def == "" {
		die("switchtable: `switch %s` in %s has no default clause (shape not understood)", it.Stmt, it.Func)
	}
	add(def)
	fmt.Fprintf(sb, "(* from %s : %s, `switch %s` *)\nInductive %s_target : Set :=", it.File, it.Func, it.Stmt, it.Name)
	for _, t := range order {
		fmt.Fprintf(sb, " | T_%s", t)
	}
	sb.WriteString(".\n")
	fmt.Fprintf(sb, "Definition %s (id : Z) : %s_target :=\n", it.Name, it.Name)
	for _, a := range arms {
		fmt.Fprintf(sb, "  if id =? %s then T_%s (* %s *) else\n", a.val, a.tgt, a.name)
	}
	fmt.Fprintf(sb, "  T_%s.\n", def)
}
